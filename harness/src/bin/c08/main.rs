//! C08 — NSEC denial of existence is sound and complete.
//!
//! Two observation points.
//!
//! (1) SOUNDNESS at hook H2 `hickory_net::dnssec::verif::verify_nsec(query, soa, rcode, answers,
//!     nsecs) -> Proof`. For a generated reference zone Z (refzone model: apex z., labels {a,b,*},
//!     depth <= 3, ENTs, wildcards anywhere, CNAMEs, cuts with/without DS, occluded data) the genuine
//!     chain N(Z) is computed by the reference (`denial::nsec_chain`), and the real decision
//!     procedure is called for every query name (universe +- a fresh label) x qtype {A, TXT, MX, DS,
//!     CNAME, NS} x rcode {NOERROR, NXDOMAIN} x answers {none, RRset + RRSIG with Labels = l for
//!     each l < |qname|} x SOA owner {apex, absent} x NSEC sets S: all subsets of N(Z) when
//!     |N(Z)| <= 8, otherwise all subsets of the records near the query name plus random subsets,
//!     plus mixtures with records of a sibling zone (a 1–2 edit variant of Z) and with the
//!     parent-side NSEC of the delegation of z. itself.
//!     The oracle looks at `Proof::Secure` verdicts only (rule `secure-not-entailed`): the verdict
//!     is a violation iff a concrete zone W exists in which every in-zone record of S is genuine
//!     (identical owner, next, bitmap; W owns the expanded wildcard RRset if the response carries
//!     one) and the response's claim (DESIGN A.4) is false. W ranges over Z itself (clause (a): the
//!     claim is simply false in the zone the records come from – this includes "the name is at/below
//!     a cut of Z and the claim is not 'no DS at the cut'": the child zone decides, parent-side
//!     records cannot entail it, RFC 6840 §4.1/§4.4), the sibling, and every zone within two edits
//!     of Z over the names {qname, its ancestors, `*.`ancestor, one child of qname} (clause (b),
//!     DESIGN A.5; ~2000 candidate zones per (qname, qtype)). W is stored in the witness.
//!     Counter-models are searched on a fast interned twin of the model (`fast`) and re-checked on
//!     the slow `refzone` model before being reported; a disagreement makes the run inconclusive.
//!     An alarm therefore always comes with a concrete world in which all presented evidence is
//!     genuine and the accepted response is false. A validator that is stricter than necessary can
//!     never cause one. The signature names the first requirement of RFC 4035 §5.4 / RFC 6840 §4
//!     the presented set fails (`diagnose`, labelling only) plus two causality probes (verdict
//!     depends on an "ancestor delegation" NSEC / on the absence of the SOA).
//!
//! (2) COMPLETENESS end to end: Z is loaded into hickory's `InMemoryZoneHandler`, signed by hickory
//!     (NSEC), served through `Catalog::handle_request`, and every query is resolved through the real
//!     `DnssecDnsHandle` (trust anchor = zone key) whose upstream is that Catalog.
//!       rule `chain-mismatch`: hickory's NSEC chain differs from N(Z) (owners, next, bitmaps);
//!       rule `completeness`: the server's response has the shape RefAuth prescribes, yet the
//!         validator rejects it (denial judged Bogus / an RRset not Secure / error);
//!       rule `completeness-server-answer-wrong`: the server's response does not have the shape
//!         RefAuth prescribes (C10's territory) and the validator rejects it;
//!       rule `e2e-wrong-answer-accepted`: such a wrong response is accepted as Secure.
//!
//! Don't-cares (never alarmed on): a NODATA claim where NXDOMAIN is the truth; an expansion whose
//! wildcard's parent does not exist; `*`-owner answered "as expansion" with Labels = |qname|-1 (a
//! plain positive answer); NSEC sets that are genuine in no candidate zone (inconsistent mixtures
//! entail everything); Bogus/Insecure/Indeterminate verdicts of any kind (strictness); referrals and
//! REFUSED end to end; CNAME chains with more than 8 RRsets end to end; a response of the right shape
//! whose records differ from RefAuth's and which the validator accepts (C10/C07 territory, counted);
//! DNAME (not modelled); TTLs, record order, case.

#[path = "../c10/refzone.rs"]
mod refzone;

mod denial;
mod e2e;
mod fast;

use std::collections::{BTreeMap, BTreeSet, HashMap};

use hickory_net::dnssec::verif::verify_nsec;
use hickory_proto::dnssec::rdata::{DNSSECRData, SigInput, NSEC, RRSIG};
use hickory_proto::dnssec::{Algorithm, Proof};
use hickory_proto::op::{Query, ResponseCode};
use hickory_proto::rr::{Name as HName, RData, Record, RecordType, SerialNumber};
use serde_json::{json, Value};

use denial::{Claim, Nsec, Reason, Truth};
use fast::{CandSet, Uni, FZ};
use refzone::{child, ty, Kind, Name, Zone};
use vh::hk;
use vh::mon::{self, hex, Ctx, Reporter};
use vh::prng::{fnv64, Rng};
use vh::refwire;

const QTYPES: [u16; 6] = [ty::A, ty::TXT, ty::MX, ty::DS, ty::CNAME, ty::NS];
/// at most this many `rep.violation` calls per (rule, sig) and shard; the rest is only counted
const MAX_REPORTS_PER_SIG: u64 = 6;
const FULL_SWEEP_MAX: usize = 8;

// ---------------------------------------------------------------------------------------------
// zones

fn signed_view(z: &Zone) -> Zone {
    let mut s = z.clone();
    let apex = s.apex.clone();
    s.add(&apex, ty::DNSKEY, denial::filler_rdata(ty::DNSKEY, &apex));
    s
}

fn gen_small_zone(rng: &mut Rng) -> Zone {
    // few owners so that |N(Z)| <= 8 and all subsets can be swept; rich in the features that matter
    let cfg = refzone::GenCfg { depth: 3, max_owners: 5, long_chain_pct: 0, nested_cut_pct: 10, cnames: true, cuts: true };
    for _ in 0..50 {
        let z = refzone::gen_zone(rng, &cfg);
        if denial::nsec_chain(&z).len() <= FULL_SWEEP_MAX {
            return z;
        }
    }
    refzone::gen_zone(rng, &refzone::GenCfg { max_owners: 2, ..cfg })
}

fn gen_big_zone(rng: &mut Rng) -> Zone {
    let cfg = refzone::GenCfg { depth: 3, max_owners: 10, long_chain_pct: 0, nested_cut_pct: 12, cnames: true, cuts: true };
    refzone::gen_zone(rng, &cfg)
}

/// a "sibling" of Z over the same universe: Z after one or two random edits (an older / newer
/// version of the zone whose signed records an attacker can still replay)
fn gen_sibling(rng: &mut Rng, z: &Zone) -> Zone {
    let uni = refzone::universe(&z.apex, 3);
    let mut s = z.clone();
    let n_edits = rng.urange(1, 2);
    let mut done = 0;
    for _ in 0..20 {
        if done >= n_edits {
            break;
        }
        let owners: Vec<Name> = s.owners().filter(|o| **o != s.apex).cloned().collect();
        let n = if !owners.is_empty() && rng.chance(1, 3) { rng.pick(&owners).clone() } else { rng.pick(&uni).clone() };
        if n == s.apex {
            continue;
        }
        let apex = s.apex.clone();
        if s.node(&n).is_some() {
            if rng.bool() {
                s.remove_name(&n);
                done += 1;
            } else {
                let t = *rng.pick(&[ty::A, ty::TXT, ty::MX]);
                if s.can_add(&n, t) && s.rrset(&n, t).is_none() {
                    s.add(&n, t, denial::filler_rdata(t, &apex));
                    done += 1;
                }
            }
        } else {
            match rng.below(8) {
                0 if !refzone::is_wildcard(&n) => {
                    s.add(&n, ty::NS, denial::filler_rdata(ty::NS, &apex));
                }
                1 => {
                    s.add(&n, ty::CNAME, denial::filler_rdata(ty::CNAME, &apex));
                }
                _ => {
                    let t = *rng.pick(&[ty::A, ty::TXT, ty::MX]);
                    s.add(&n, t, denial::filler_rdata(t, &apex));
                }
            }
            done += 1;
        }
    }
    s
}

// ---------------------------------------------------------------------------------------------
// H2: hickory objects

fn hname(n: &Name) -> HName {
    hk::to_name(n).expect("name")
}

fn hnsec(r: &Nsec) -> NSEC {
    NSEC::new(hname(&r.next), r.types.iter().map(|t| RecordType::from(*t)))
}

/// answer section of a wildcard-expanded response: the RRset (one filler record) at the query name
/// plus its RRSIG with Labels = `labels`, both marked Secure as the validator would have done
fn expansion_answers(q: &Name, t: u16, labels: usize, apex: &Name) -> Vec<Record> {
    let mut data = e2e::rdata_record(q, t, &denial::filler_rdata(t, apex)).expect("filler record");
    data.proof = Proof::Secure;
    let input = SigInput {
        type_covered: RecordType::from(t),
        algorithm: Algorithm::ED25519,
        num_labels: labels as u8,
        original_ttl: e2e::TTL,
        sig_expiration: SerialNumber::new(e2e::T_SIGN as u32 + 86400 * 30),
        sig_inception: SerialNumber::new(e2e::T_SIGN as u32),
        key_tag: 4242,
        signer_name: hname(apex),
    };
    let mut sig = Record::from_rdata(hname(q), e2e::TTL, RData::DNSSEC(DNSSECRData::RRSIG(RRSIG::from_sig(input, vec![0u8; 64]))));
    sig.proof = Proof::Secure;
    vec![data, sig]
}

fn call_h2(query: &Query, soa: Option<&HName>, nx: bool, answers: &[Record], nsecs: &[(&HName, &NSEC)]) -> Result<Proof, mon::PanicRecord> {
    let rcode = if nx { ResponseCode::NXDomain } else { ResponseCode::NoError };
    mon::catch(|| verify_nsec(query, soa, rcode, answers, nsecs))
}

// ---------------------------------------------------------------------------------------------
// H2: per-zone environment shared by the sweep and by --replay

#[derive(Clone)]
struct PoolRec {
    nsec: Nsec,
    /// packed (owner, next, bitmap) when both names are inside the zone's name table
    key: Option<u64>,
    hname: HName,
    hnsec: NSEC,
    /// "zone" (member of N(Z)), "sibling" (member of N(sibling) only), "parent" (parent-side NSEC of
    /// the delegation of the apex, lives in the parent zone), "foreign" (replay only)
    origin: &'static str,
}

struct ZoneEnv {
    /// signed view (DNSKEY at the apex) of Z and of the sibling
    z: Zone,
    sibling: Option<Zone>,
    uni: Uni,
    fz: FZ,
    fsib: Option<FZ>,
    apex_h: HName,
    pool: Vec<PoolRec>,
    n_zone: usize,
}

fn parent_apex_nsec(apex: &Name, with_ds: bool) -> Nsec {
    // the root zone's view of the delegation "z.": z. NSEC zz. NS [DS] RRSIG NSEC
    let mut types: BTreeSet<u16> = [ty::NS, denial::T_RRSIG, denial::T_NSEC].into_iter().collect();
    if with_ds {
        types.insert(ty::DS);
    }
    let mut next = apex.clone();
    let last = next.last_mut().unwrap();
    let l = last.clone();
    last.extend_from_slice(&l);
    Nsec { owner: apex.clone(), next, types }
}

impl ZoneEnv {
    fn new(z: &Zone, sibling: Option<&Zone>, qnames: &[Name], extra: &[Nsec], parent_with_ds: Option<bool>) -> Result<ZoneEnv, String> {
        let z = z.clone();
        let sibling = sibling.cloned();
        let mut names: Vec<Name> = refzone::universe(&z.apex, 3);
        for q in qnames {
            names.push(q.clone());
            names.push(child(fast::CHILD_LABEL, q));
            for k in z.apex.len()..=q.len() {
                names.push(refzone::wildcard_of(&refzone::suffix(q, k)));
            }
        }
        names.extend(z.owners().cloned());
        if let Some(s) = &sibling {
            names.extend(s.owners().cloned());
        }
        for r in extra {
            names.push(r.owner.clone());
            names.push(r.next.clone());
        }
        let uni = Uni::build(&z.apex, names);
        let fz = FZ::from_zone(&uni, &z)?;
        let fsib = match &sibling {
            Some(s) => Some(FZ::from_zone(&uni, s)?),
            None => None,
        };
        let mk = |uni: &Uni, r: &Nsec, origin: &'static str| PoolRec { nsec: r.clone(), key: uni.key_of(r), hname: hname(&r.owner), hnsec: hnsec(r), origin };
        let chain = denial::nsec_chain(&z);
        let mut pool: Vec<PoolRec> = chain.iter().map(|r| mk(&uni, r, "zone")).collect();
        let n_zone = pool.len();
        if let Some(s) = &sibling {
            for r in denial::nsec_chain(s) {
                if !chain.contains(&r) && pool.len() < n_zone + 10 {
                    pool.push(mk(&uni, &r, "sibling"));
                }
            }
        }
        if let Some(ds) = parent_with_ds {
            pool.push(mk(&uni, &parent_apex_nsec(&z.apex, ds), "parent"));
        }
        for r in extra {
            if !pool.iter().any(|p| p.nsec == *r) {
                let origin = if !refzone::is_subdomain(&r.next, &z.apex) && r.owner == z.apex { "parent" } else { "foreign" };
                pool.push(mk(&uni, r, origin));
            }
        }
        let apex_h = hname(&z.apex);
        Ok(ZoneEnv { z, sibling, uni, fz, fsib, apex_h, pool, n_zone })
    }
}

#[derive(Clone, Debug)]
struct Call {
    q: Name,
    t: u16,
    nx: bool,
    labels: Option<usize>,
    soa: bool,
    /// indices into the pool, in the order handed to verify_nsec
    s: Vec<usize>,
}

impl Call {
    fn claim(&self) -> Claim {
        if self.nx {
            Claim::NxDomain
        } else if let Some(l) = self.labels {
            Claim::Expansion { labels: l }
        } else {
            Claim::NoData
        }
    }
}

struct Finding {
    /// the witness world is the zone itself (no edits)
    in_zone: bool,
    rule: &'static str,
    sig: String,
    case: Value,
    expected: Value,
    observed: Value,
}

/// kind of a *true* claim, for the must-observe counters
fn true_kind(z: &Zone, q: &Name, t: u16, claim: &Claim) -> &'static str {
    match claim {
        Claim::NxDomain => "nxdomain",
        Claim::Expansion { .. } => "wildcard-expansion",
        Claim::NoData => {
            if z.exists(q) {
                if z.is_ent(q) {
                    "ent-nodata"
                } else if z.is_delegation(q) && t == ty::DS {
                    "ds-nodata-at-cut"
                } else {
                    "nodata"
                }
            } else {
                "wildcard-nodata"
            }
        }
    }
}

fn run_call(env: &ZoneEnv, c: &Call, answers: &[Record], query: &Query) -> Result<Proof, mon::PanicRecord> {
    let refs: Vec<(&HName, &NSEC)> = c.s.iter().map(|&i| (&env.pool[i].hname, &env.pool[i].hnsec)).collect();
    call_h2(query, if c.soa { Some(&env.apex_h) } else { None }, c.nx, answers, &refs)
}

fn case_json(env: &ZoneEnv, c: &Call) -> Value {
    json!({
        "kind": "h2",
        "zone": env.z.to_json(),
        "zone_text": env.z.to_text(),
        "sibling": env.sibling.as_ref().map(|s| s.to_json()),
        "qname": refzone::show(&c.q),
        "qtype": refzone::type_name(c.t),
        "rcode": if c.nx { "NXDOMAIN" } else { "NOERROR" },
        "answer_rrsig_labels": c.labels,
        "soa_owner": if c.soa { Some(refzone::show(&env.z.apex)) } else { None },
        "nsecs": c.s.iter().map(|&i| { let mut v = env.pool[i].nsec.to_json(); v["origin"] = json!(env.pool[i].origin); v }).collect::<Vec<_>>(),
    })
}

/// Labelling aid for signatures: walk the presented records the way RFC 4035 §5.4 (with RFC 6840
/// §4.1/§4.4 and RFC 4592) requires and name the first requirement that is not met. Never used to
/// decide whether to alarm.
fn diagnose(apex: &Name, q: &Name, t: u16, claim: &Claim, s: &[&Nsec]) -> String {
    let deleg = |r: &Nsec, x: &Name| r.types.contains(&ty::NS) && !r.types.contains(&ty::SOA) && refzone::is_subdomain(x, &r.owner);
    let common = |x: &Name, y: &Name| -> Name {
        let mut k = x.len().min(y.len());
        while k > 0 && refzone::suffix(x, k) != refzone::suffix(y, k) {
            k -= 1;
        }
        refzone::suffix(x, k)
    };
    let star = |ce: &Name| if refzone::is_wildcard(ce) { "+asterisk-encloser" } else { "" };
    let matching = |x: &Name| s.iter().find(|r| r.owner == *x).copied();
    // prefer a covering record that is not an ancestor delegation w.r.t. the covered name
    let covering = |x: &Name| s.iter().filter(|r| ref_covers(r, x, apex)).min_by_key(|r| deleg(r, x)).copied();
    if let Some(m) = matching(q) {
        return match claim {
            Claim::NoData => {
                if m.types.contains(&t) || (m.types.contains(&ty::CNAME) && t != ty::CNAME) {
                    "type-bit-set".into()
                } else if deleg(m, q) && t != ty::DS {
                    "ancestor-delegation-nsec:at-cut".into()
                } else {
                    "undiagnosed".into()
                }
            }
            _ => "qname-matched".into(),
        };
    }
    let Some(c) = covering(q) else { return "qname-not-covered".into() };
    if deleg(c, q) {
        return "ancestor-delegation-nsec:below-cut".into();
    }
    let ent = refzone::is_strict_subdomain(&c.next, q);
    let a = common(q, &c.owner);
    let b = common(q, &c.next);
    let ce = if a.len() >= b.len() { a } else { b };
    let w = refzone::wildcard_of(&ce);
    match claim {
        Claim::NoData => {
            if ent {
                return "undiagnosed".into();
            }
            if let Some(m) = matching(&w) {
                if m.types.contains(&t) || (m.types.contains(&ty::CNAME) && t != ty::CNAME) {
                    return format!("wildcard-type-bit-set{}", star(&ce));
                }
                return "undiagnosed".into();
            }
            if covering(&w).is_some_and(|r| refzone::is_strict_subdomain(&r.next, &w)) {
                return "undiagnosed".into();
            }
            format!("wildcard-not-matched{}", star(&ce))
        }
        Claim::NxDomain => {
            if ent {
                return "qname-is-ent".into();
            }
            if matching(&w).is_some() {
                return format!("wildcard-exists{}", star(&ce));
            }
            let Some(cw) = covering(&w) else { return format!("wildcard-not-denied{}", star(&ce)) };
            if deleg(cw, &w) {
                return "ancestor-delegation-nsec:wildcard-below-cut".into();
            }
            if refzone::is_strict_subdomain(&cw.next, &w) {
                return format!("wildcard-is-ent{}", star(&ce));
            }
            "undiagnosed".into()
        }
        Claim::Expansion { labels } => {
            if ent {
                return "qname-is-ent".into();
            }
            if ce.len() > *labels {
                return format!("closer-encloser-exists{}", star(&ce));
            }
            if ce.len() < *labels {
                return "inconsistent-evidence".into();
            }
            "undiagnosed".into()
        }
    }
}

/// The oracle for one `Secure` verdict. `cands` = candidate worlds for (q, t).
/// slow-model materialisations of counter-model candidates, per candidate set
type ConfirmCache = HashMap<usize, (Zone, Vec<Nsec>)>;

fn judge_secure(env: &ZoneEnv, cands: &CandSet, cache: &mut ConfirmCache, c: &Call, answers: &[Record], query: &Query, counters: &mut Vec<String>, want_witness: &mut dyn FnMut(&str) -> bool) -> Option<Finding> {
    let claim = c.claim();
    // records that live in another zone (parent side of the apex delegation) are genuine in every
    // world; only the in-zone records constrain Z'
    let mut keys: Vec<u64> = Vec::new();
    for &i in &c.s {
        let p = &env.pool[i];
        match (p.origin, p.key) {
            ("parent", _) => {}
            (_, Some(k)) => keys.push(k),
            (_, None) => {
                // a record that can be genuine in no candidate zone
                counters.push("h2/secure_unjudged_foreign_record".into());
                return None;
            }
        }
    }
    keys.sort_unstable();
    keys.dedup();
    let Some((ci, reason)) = cands.search(&keys, &claim) else {
        return None;
    };
    let cand = &cands.cands[ci];
    // ---- confirm on the slow model
    let (zp, zp_chain) = cache.entry(ci).or_insert_with(|| {
        let base = if cand.base == 0 { &env.z } else { env.sibling.as_ref().expect("sibling candidate without sibling") };
        let zp = fast::materialize(&env.uni, base, cand);
        let chain = denial::nsec_chain(&zp);
        (zp, chain)
    });
    let s_in_ok = c.s.iter().filter(|&&i| env.pool[i].origin != "parent").all(|&i| zp_chain.contains(&env.pool[i].nsec));
    let truth = denial::claim_truth(zp, &c.q, c.t, &claim);
    let ev_ok = match claim {
        Claim::Expansion { labels } => denial::expansion_evidence(zp, &c.q, c.t, labels),
        _ => true,
    };
    if !s_in_ok || truth.falsified() != Some(reason) || !ev_ok {
        counters.push("h2/model_disagreement".into());
        return None;
    }
    // ---- signature (labelling only – the alarm itself rests on the counter-model above).
    // Causality probes, most fundamental first. A subset of S is genuine wherever S is, so the
    // counter-model also refutes every variant of the call that stays Secure.
    // (1) "ancestor delegation" records (RFC 6840 §4.1: NS bit set, SOA bit clear, owner an
    //     ancestor-or-self of the query name): is the verdict Secure only because of them?
    let is_anc_deleg = |i: usize| {
        let r = &env.pool[i].nsec;
        r.types.contains(&ty::NS) && !r.types.contains(&ty::SOA) && refzone::is_subdomain(&c.q, &r.owner) && !(r.owner == c.q && c.t == ty::DS && claim == Claim::NoData)
    };
    let mut label = String::new();
    let mut c_eff = c.clone();
    if c.s.iter().any(|&i| is_anc_deleg(i)) {
        let mut c2 = c.clone();
        c2.s.retain(|&i| !is_anc_deleg(i));
        if matches!(run_call(env, &c2, answers, query), Ok(Proof::Secure)) {
            c_eff = c2;
        } else {
            let at = c.s.iter().any(|&i| is_anc_deleg(i) && env.pool[i].nsec.owner == c.q);
            label = format!("ancestor-delegation-nsec:{}", if at { "at-cut" } else { "below-cut" });
        }
    }
    // (2) otherwise: which requirement of RFC 4035 §5.4 the (remaining) set fails
    if label.is_empty() {
        let s_refs: Vec<&Nsec> = c_eff.s.iter().map(|&i| &env.pool[i].nsec).collect();
        label = diagnose(&env.z.apex, &c.q, c.t, &claim, &s_refs);
    }
    // (3) is the verdict Secure only because the response carries no SOA?
    if !c_eff.soa {
        let mut c2 = c_eff.clone();
        c2.soa = true;
        if !matches!(run_call(env, &c2, answers, query), Ok(Proof::Secure)) {
            label.push_str("+soa-absent");
        }
    }
    let in_z = cand.n == 0 && cand.base == 0;
    let rule = "secure-not-entailed";
    let sig = format!("{}|{}|validator", claim.as_str(), label);
    if !want_witness(&format!("{rule}|{sig}")) {
        return Some(Finding { in_zone: in_z, rule, sig, case: Value::Null, expected: Value::Null, observed: Value::Null });
    }
    let mut case = case_json(env, c);
    case["counter_model"] = json!({
        "witness": if in_z { "the zone itself" } else { "a zone within two edits" },
        "falsified_because": reason.tag(),
        "derived_from": if cand.base == 0 { "zone" } else { "sibling" },
        "edits": fast::show_edits(&env.uni, cand),
        "zone": zp.to_json(),
        "zone_text": zp.to_text(),
        "genuine_chain": zp_chain.iter().map(|n| n.show()).collect::<Vec<_>>(),
    });
    let expected = json!({
        "verdict": "anything but Secure",
        "because": if in_z { format!("every NSEC presented is genuine in the zone itself and the claim '{}' is false there: {}", claim.as_str(), reason.text()) }
                   else { format!("the NSECs presented are all genuine in the counter-model zone ({} edit(s) away), where the claim '{}' is false: {} – so they do not entail the response", cand.n, claim.as_str(), reason.text()) },
        "truth_in_zone": format!("{:?}", denial::claim_truth(&env.z, &c.q, c.t, &claim)),
    });
    Some(Finding { in_zone: in_z, rule, sig, case, expected, observed: json!({"verify_nsec": "Secure"}) })
}

// ---------------------------------------------------------------------------------------------
// H2: the sweep over one zone

struct H2Runner<'a> {
    rep: &'a mut Reporter,
    reported: BTreeMap<String, u64>,
}

impl H2Runner<'_> {
    fn report(&mut self, f: Finding) {
        self.rep.count("violations_seen");
        let n = self.reported.entry(format!("{}|{}", f.rule, f.sig)).or_insert(0);
        *n += 1;
        if *n > MAX_REPORTS_PER_SIG || f.case.is_null() {
            self.rep.count(&format!("capped/{}|{}", f.rule, f.sig));
            return;
        }
        self.rep.violation(f.rule, &f.sig, f.case, f.expected, f.observed);
    }
    fn wants(&self, key: &str) -> bool {
        self.reported.get(key).copied().unwrap_or(0) < MAX_REPORTS_PER_SIG
    }
}

/// reference "covers" (canonical order, last record wraps to the apex) – used only to pick the
/// records near a query name when building the workload, never by the oracle
fn ref_covers(r: &Nsec, x: &Name, apex: &Name) -> bool {
    use std::cmp::Ordering::*;
    refzone::canonical_cmp(&r.owner, x) == Less && (refzone::canonical_cmp(x, &r.next) == Less || r.next == *apex)
}

struct SweepCfg {
    full: bool,
    n_rand: usize,
    n_mix: usize,
}

fn subsets_for(rng: &mut Rng, env: &ZoneEnv, q: &Name, cfg: &SweepCfg) -> Vec<u64> {
    let nz = env.n_zone;
    let mut out: Vec<u64> = Vec::new();
    if cfg.full && nz <= FULL_SWEEP_MAX {
        for m in 0..(1u64 << nz) {
            out.push(m);
        }
    } else {
        // records near q: owner/next/cover relation with q, its ancestors, their wildcards
        let mut near: Vec<Name> = Vec::new();
        for k in env.z.apex.len()..=q.len() {
            let a = refzone::suffix(q, k);
            near.push(refzone::wildcard_of(&a));
            near.push(a);
        }
        let mut rel: Vec<usize> = (0..nz).filter(|&i| near.iter().any(|x| env.pool[i].nsec.owner == *x || ref_covers(&env.pool[i].nsec, x, &env.z.apex))).collect();
        if rel.len() > 6 {
            rng.shuffle(&mut rel);
            rel.truncate(6);
        }
        for m in 0..(1u64 << rel.len()) {
            let mut mask = 0u64;
            for (b, &i) in rel.iter().enumerate() {
                if m >> b & 1 == 1 {
                    mask |= 1 << i;
                }
            }
            out.push(mask);
        }
        for _ in 0..cfg.n_rand {
            let k = [1usize, 1, 2, 2, 2, 3, 3, 4, 6][rng.usize_below(9)].min(nz);
            let mut mask = 0u64;
            for _ in 0..k {
                mask |= 1 << rng.usize_below(nz);
            }
            out.push(mask);
        }
    }
    // mixtures with records that are not in N(Z)
    let extras: Vec<usize> = (nz..env.pool.len().min(63)).collect();
    if !extras.is_empty() {
        for _ in 0..cfg.n_mix {
            let mut mask = 0u64;
            for _ in 0..rng.urange(0, 2) {
                mask |= 1 << rng.usize_below(nz);
            }
            for _ in 0..rng.urange(1, 2) {
                mask |= 1 << *rng.pick(&extras);
            }
            out.push(mask);
        }
    }
    out.sort_unstable();
    out.dedup();
    out
}

fn h2_zone(run: &mut H2Runner, rng: &mut Rng, z: &Zone, qnames: &[Name], cfg: &SweepCfg) {
    let zs = signed_view(z);
    let sib = signed_view(&gen_sibling(rng, z));
    let _ = rng.bool();
    let env = match ZoneEnv::new(&zs, Some(&sib), qnames, &[], Some(true)) {
        Ok(e) => e,
        Err(e) => {
            run.rep.inconclusive(&format!("zone could not be interned: {e}"));
            return;
        }
    };
    // the fast model must agree with the reference on this zone and on its sibling
    for zz in [&env.z, env.sibling.as_ref().unwrap()] {
        if let Err(e) = fast::cross_check(&env.uni, zz, qnames, &QTYPES) {
            run.rep.inconclusive(&format!("fast/slow model disagreement: {e}"));
            run.rep.count("h2/model_disagreement");
            return;
        }
    }
    run.rep.count("h2/zones");
    let full = cfg.full && env.n_zone <= FULL_SWEEP_MAX;
    if full {
        run.rep.count("h2/zones_all_subsets_swept");
    }
    if env.z.owners().any(|o| env.z.is_delegation(o)) {
        run.rep.count("h2/zones_with_cut");
    }
    let zhash = fnv64(&env.z.canonical_bytes());
    let mut refs: Vec<(&HName, &NSEC)> = Vec::with_capacity(64);
    let mut crosschecked_cands = 0;
    for q in qnames {
        let qh = hname(q);
        let subsets = subsets_for(rng, &env, q, cfg);
        let qid = env.uni.id(q).expect("query name interned");
        let cut_case = env.z.covering_cut(q).is_some();
        for &t in &QTYPES {
            let query = Query::new(qh.clone(), RecordType::from(t));
            let tbit = fast::bit_of(t).unwrap();
            let mut cands: Option<CandSet> = None;
            let mut confirm: ConfirmCache = HashMap::new();
            // response shapes
            let mut shapes: Vec<(bool, Option<usize>)> = vec![(false, None), (true, None)];
            for l in env.z.apex.len()..q.len() {
                if l + 1 == q.len() && refzone::is_wildcard(q) {
                    continue; // Labels = |qname|-1 on a `*` owner is the plain positive answer
                }
                shapes.push((false, Some(l)));
            }
            if q.len() > env.z.apex.len() && rng.chance(1, 6) {
                shapes.push((true, Some(rng.urange(env.z.apex.len(), q.len() - 1))));
            }
            for (nx, labels) in shapes {
                let answers = match labels {
                    Some(l) => expansion_answers(q, t, l, &env.z.apex),
                    None => Vec::new(),
                };
                for soa in [true, false] {
                    let rev = rng.chance(1, 4);
                    let mut h = zhash.to_le_bytes().to_vec();
                    h.extend_from_slice(&refzone::wire_name(q));
                    h.extend_from_slice(&[t as u8, nx as u8, labels.map_or(0xff, |l| l as u8), soa as u8]);
                    run.rep.nontrivial(fnv64(&h));
                    let mut n_calls = 0u64;
                    let mut n_secure = 0u64;
                    let mut n_bogus = 0u64;
                    for &mask in &subsets {
                        refs.clear();
                        let mut idx: Vec<usize> = Vec::new();
                        if mask.count_ones() as usize > 0 {
                            for i in 0..env.pool.len().min(64) {
                                if mask >> i & 1 == 1 {
                                    idx.push(i);
                                }
                            }
                            if rev {
                                idx.reverse();
                            }
                        }
                        for &i in &idx {
                            refs.push((&env.pool[i].hname, &env.pool[i].hnsec));
                        }
                        n_calls += 1;
                        let verdict = call_h2(&query, if soa { Some(&env.apex_h) } else { None }, nx, &answers, &refs);
                        let proof = match verdict {
                            Ok(p) => p,
                            Err(p) => {
                                // a panic is not a Secure verdict; report it (no-panic is part of
                                // "accepted only if": the procedure must return)
                                let call = Call { q: q.clone(), t, nx, labels, soa, s: idx.clone() };
                                run.report(Finding { in_zone: true, rule: "panic", sig: p.site(), case: case_json(&env, &call), expected: json!("a Proof"), observed: json!({"panic": p.message, "at": p.location}) });
                                continue;
                            }
                        };
                        if proof != Proof::Secure {
                            if proof == Proof::Bogus {
                                n_bogus += 1;
                            } else {
                                run.rep.count("h2/other_proof");
                            }
                            continue;
                        }
                        n_secure += 1;
                        if cands.is_none() {
                            cands = Some(CandSet::build(&env.uni, &env.fz, env.fsib.as_ref(), qid, tbit, true));
                            run.rep.count("h2/candidate_sets");
                            run.rep.add("h2/candidate_zones", cands.as_ref().unwrap().cands.len() as u64);
                            // cross-check a few candidates against the slow model, spread over zones
                            if crosschecked_cands < 3 {
                                crosschecked_cands += 1;
                                let cs = cands.as_ref().unwrap();
                                for _ in 0..4 {
                                    let c = &cs.cands[rng.usize_below(cs.cands.len())];
                                    let base = if c.base == 0 { &env.z } else { env.sibling.as_ref().unwrap() };
                                    let zp = fast::materialize(&env.uni, base, c);
                                    let slow_chain = denial::nsec_chain(&zp);
                                    let fast_chain: Vec<Nsec> = cs.chain(c).iter().map(|k| env.uni.nsec_of(*k)).collect();
                                    let ok = slow_chain == fast_chain && denial::claim_truth(&zp, q, t, &Claim::NxDomain) == c.nx && denial::claim_truth(&zp, q, t, &Claim::NoData) == c.nodata;
                                    run.rep.count("h2/candidates_crosschecked");
                                    if !ok {
                                        run.rep.count("h2/model_disagreement");
                                        run.rep.inconclusive(&format!("fast/slow disagreement on candidate {:?} of {}", fast::show_edits(&env.uni, c), refzone::show(q)));
                                    }
                                }
                            }
                        }
                        let call = Call { q: q.clone(), t, nx, labels, soa, s: idx };
                        let mut notes = Vec::new();
                        let reported = &run.reported;
                        let mut want = |k: &str| reported.get(k).copied().unwrap_or(0) < MAX_REPORTS_PER_SIG;
                        let f = judge_secure(&env, cands.as_ref().unwrap(), &mut confirm, &call, &answers, &query, &mut notes, &mut want);
                        for n in notes {
                            if n == "h2/model_disagreement" {
                                run.rep.inconclusive("fast/slow model disagreement while confirming a counter-model");
                            }
                            run.rep.count(&n);
                        }
                        match f {
                            Some(f) => {
                                run.rep.count("h2/secure_violating");
                                run.report(f);
                            }
                            None => {
                                let claim = call.claim();
                                let in_z = call.s.iter().all(|&i| env.pool[i].origin == "zone");
                                let ev_in_z = match claim {
                                    Claim::Expansion { labels } => denial::expansion_evidence(&env.z, q, t, labels),
                                    _ => true,
                                };
                                match denial::claim_truth(&env.z, q, t, &claim) {
                                    _ if !ev_in_z => run.rep.count("h2/secure_expansion_of_wildcard_absent_from_zone"),
                                    Truth::True if in_z => {
                                        run.rep.count("h2/secure_entailed");
                                        run.rep.count(&format!("secure_true/{}", true_kind(&env.z, q, t, &claim)));
                                        if n_secure == 1 {
                                            run.rep.sample(|| json!({"workload": "h2", "verdict": "Secure (claim true, no counter-model)", "case": case_json(&env, &call)}));
                                        }
                                    }
                                    Truth::Ambiguous => run.rep.count("h2/secure_dontcare_ambiguous_claim"),
                                    _ => run.rep.count("h2/secure_mixture_no_single_world"),
                                }
                            }
                        }
                    }
                    run.rep.evals(n_calls);
                    run.rep.add("h2/calls", n_calls);
                    run.rep.add("h2/secure", n_secure);
                    run.rep.add("h2/bogus", n_bogus);
                    if cut_case {
                        run.rep.add("h2/cut_case_calls", n_calls);
                        run.rep.add("h2/cut_case_secure", n_secure);
                    }
                    if full {
                        run.rep.add("h2/calls_in_all_subset_sweeps", n_calls);
                    }
                    if !soa {
                        run.rep.add("h2/calls_soa_absent", n_calls);
                    }
                    run.rep.add(&format!("h2/shape/{}", if nx { if labels.is_some() { "nxdomain+answer" } else { "nxdomain" } } else if labels.is_some() { "noerror+wildcard-answer" } else { "noerror-empty" }), n_calls);
                }
            }
        }
    }
}

// ---------------------------------------------------------------------------------------------
// E2E

#[derive(Debug, Default)]
struct Shape {
    rcode: u16,
    /// non-RRSIG answer records (owner, type, canonical rdata)
    answers: Vec<refzone::Rr>,
    /// (owner, type covered, labels) of answer RRSIGs
    answer_sigs: Vec<(Name, u16, u8)>,
    soa: bool,
    nsecs: Vec<Nsec>,
    authority_other: Vec<(Name, u16)>,
}

fn canon_rdata(msg: &[u8], r: &refwire::WRecord) -> Result<Vec<u8>, String> {
    let raw = r.rdata(msg);
    let end = r.rdata_off + r.rdata_len;
    let name_at = |off: usize| -> Result<(Vec<u8>, usize), String> {
        let (n, next) = refwire::read_name(msg, off)?;
        if next > end {
            return Err("name runs past RDATA".into());
        }
        Ok((refzone::wire_name(&n.labels), next))
    };
    Ok(match r.rtype {
        ty::NS | ty::CNAME | ty::PTR => name_at(r.rdata_off)?.0,
        ty::MX => {
            if raw.len() < 3 {
                return Err("short MX".into());
            }
            let mut v = raw[..2].to_vec();
            v.extend(name_at(r.rdata_off + 2)?.0);
            v
        }
        _ => raw.to_vec(),
    })
}

fn parse_nsec(msg: &[u8], r: &refwire::WRecord) -> Result<Nsec, String> {
    let end = r.rdata_off + r.rdata_len;
    let (next, mut off) = refwire::read_name(msg, r.rdata_off)?;
    let mut types = BTreeSet::new();
    while off < end {
        if off + 2 > end {
            return Err("short NSEC window".into());
        }
        let win = msg[off] as u16;
        let len = msg[off + 1] as usize;
        off += 2;
        if off + len > end || len == 0 || len > 32 {
            return Err("bad NSEC window length".into());
        }
        for (bi, b) in msg[off..off + len].iter().enumerate() {
            for bit in 0..8 {
                if b & (0x80 >> bit) != 0 {
                    types.insert(win * 256 + (bi as u16) * 8 + bit as u16);
                }
            }
        }
        off += len;
    }
    Ok(Nsec { owner: refzone::fold(&r.owner.labels), next: refzone::fold(&next.labels), types })
}

fn shape_of(msg: &[u8]) -> Result<Shape, String> {
    let w = refwire::walk(msg)?;
    if w.end != msg.len() {
        return Err("trailing bytes".into());
    }
    let mut s = Shape { rcode: w.header.rcode_low() as u16, ..Default::default() };
    for r in &w.sections[0] {
        let owner = refzone::fold(&r.owner.labels);
        if r.rtype == ty::RRSIG {
            let rd = r.rdata(msg);
            if rd.len() < 18 {
                return Err("short RRSIG".into());
            }
            s.answer_sigs.push((owner, u16::from_be_bytes([rd[0], rd[1]]), rd[3]));
        } else {
            s.answers.push((owner, r.rtype, canon_rdata(msg, r)?));
        }
    }
    for r in &w.sections[1] {
        let owner = refzone::fold(&r.owner.labels);
        match r.rtype {
            ty::SOA => s.soa = true,
            ty::NSEC => s.nsecs.push(parse_nsec(msg, r)?),
            ty::RRSIG => {}
            t => s.authority_other.push((owner, t)),
        }
    }
    for r in &w.sections[2] {
        if r.rtype == ty::OPT {
            s.rcode |= ((r.ttl >> 24) as u16) << 4;
        }
    }
    Ok(s)
}

fn shape_kind(s: &Shape) -> &'static str {
    if s.rcode == 3 {
        if s.answers.is_empty() {
            "nxdomain"
        } else {
            "nxdomain+answer"
        }
    } else if s.rcode != 0 {
        "other-rcode"
    } else if !s.answers.is_empty() {
        if s.answer_sigs.iter().any(|(o, _, l)| (*l as usize) < o.len() && !(refzone::is_wildcard(o) && *l as usize + 1 == o.len())) {
            "wildcard-answer"
        } else {
            "answer"
        }
    } else if s.soa {
        "nodata"
    } else if s.authority_other.iter().any(|(_, t)| *t == ty::NS) {
        "referral"
    } else {
        "empty"
    }
}

/// the NSEC records RFC 4035 §3.1.3 asks the server to attach, taken from the reference chain
fn required_nsecs(zs: &Zone, chain: &[Nsec], e: &refzone::Outcome) -> Vec<(Nsec, &'static str)> {
    let q = &e.qname;
    let find_match = |n: &Name| chain.iter().find(|r| r.owner == *n).cloned();
    let find_cover = |n: &Name| chain.iter().find(|r| ref_covers(r, n, &zs.apex)).cloned();
    let mut v: Vec<(Nsec, &'static str)> = Vec::new();
    let mut add = |r: Option<Nsec>, why: &'static str| {
        if let Some(r) = r {
            if !v.iter().any(|(x, _)| *x == r) {
                v.push((r, why));
            }
        }
    };
    match e.kind {
        Kind::Nodata => add(find_match(q), "match-qname"),
        Kind::EntNodata => add(find_cover(q), "cover-qname"),
        Kind::Nxdomain => {
            add(find_cover(q), "cover-qname");
            add(find_cover(&zs.source_of_synthesis(q)), "cover-wildcard");
        }
        Kind::WildcardAnswer | Kind::WildcardCname => add(find_cover(q), "cover-qname"),
        Kind::WildcardNodata => {
            add(find_cover(q), "cover-qname");
            let w = zs.source_of_synthesis(q);
            // an ENT wildcard has no NSEC of its own: the record covering it proves it is an ENT
            add(find_match(&w).or_else(|| find_cover(&w)), "match-wildcard");
        }
        _ => {}
    }
    // RFC 4035 §3.1.3.3: every wildcard-expanded RRset of the answer section (also at a CNAME
    // target) needs the NSEC proving that no closer match exists
    for st in e.steps.iter().skip(1) {
        if matches!(st.kind, Kind::WildcardAnswer | Kind::WildcardCname) {
            add(find_cover(&st.qname), "cover-cname-target");
        }
    }
    v
}

struct E2eRunner<'a> {
    rep: &'a mut Reporter,
    rt: tokio::runtime::Runtime,
    reported: BTreeMap<String, u64>,
}

impl E2eRunner<'_> {
    fn report(&mut self, rule: &str, sig: String, case: Value, expected: Value, observed: Value) {
        self.rep.count("violations_seen");
        let n = self.reported.entry(format!("{rule}|{sig}")).or_insert(0);
        *n += 1;
        if *n > MAX_REPORTS_PER_SIG {
            self.rep.count(&format!("capped/{rule}|{sig}"));
            return;
        }
        self.rep.violation(rule, &sig, case, expected, observed);
    }

    /// compare hickory's chain with N(Z)
    fn check_chain(&mut self, z: &Zone, zs: &Zone, hick: &[Nsec]) {
        self.rep.eval();
        self.rep.count("e2e/chains_compared");
        let want = denial::nsec_chain(zs);
        if want == hick {
            self.rep.count("e2e/chain_equal");
            return;
        }
        let case = || json!({"kind": "chain", "zone": z.to_json(), "zone_text": z.to_text()});
        let show = |v: &[Nsec]| v.iter().map(|n| n.show()).collect::<Vec<_>>();
        let wo: BTreeSet<&Name> = want.iter().map(|n| &n.owner).collect();
        let ho: BTreeSet<&Name> = hick.iter().map(|n| &n.owner).collect();
        let mut sigs: BTreeSet<String> = BTreeSet::new();
        for o in ho.difference(&wo) {
            let class = if zs.occluded(o) { "occluded-name" } else if zs.node(o).is_none() { "name-without-data" } else { "other" };
            sigs.insert(format!("extra-owner|{class}|server"));
        }
        for o in wo.difference(&ho) {
            let class = if zs.is_delegation(o) { "delegation" } else if refzone::is_wildcard(o) { "wildcard" } else { "other" };
            sigs.insert(format!("missing-owner|{class}|server"));
        }
        for w in &want {
            let Some(h) = hick.iter().find(|h| h.owner == w.owner) else { continue };
            if h.types != w.types {
                let extra: Vec<String> = h.types.difference(&w.types).map(|t| refzone::type_name(*t)).collect();
                let missing: Vec<String> = w.types.difference(&h.types).map(|t| refzone::type_name(*t)).collect();
                if zs.is_delegation(&w.owner) && missing.is_empty() && h.types.difference(&w.types).all(|t| zs.rrset(&w.owner, *t).is_some()) {
                    // types of non-authoritative RRsets that sit at the cut name (glue) shown in the bitmap
                    sigs.insert("bitmap|at-delegation:non-authoritative-types-set|server".to_string());
                } else {
                    let place = if zs.is_delegation(&w.owner) { "at-delegation" } else if w.owner == zs.apex { "at-apex" } else { "elsewhere" };
                    sigs.insert(format!("bitmap|{place}:+[{}]-[{}]|server", extra.join(","), missing.join(",")));
                }
            }
            if h.next != w.next && ho == wo {
                sigs.insert("next-name|same-owners|server".to_string());
            }
        }
        if sigs.is_empty() {
            sigs.insert("other|-|server".into());
        }
        for sig in sigs {
            self.report("chain-mismatch", sig, case(), json!({"reference_chain": show(&want), "rfc": "RFC 4035 §2.3 (one NSEC per authoritative owner name and per delegation point; at a delegation only NS/DS/RRSIG/NSEC bits), RFC 4034 §4.1.1/§6.1"}), json!({"hickory_chain": show(hick)}));
        }
    }

    fn check_query(&mut self, z: &Zone, zs: &Zone, ref_chain: &[Nsec], served: &e2e::Served, v: &hickory_net::dnssec::DnssecDnsHandle<e2e::CatHandle>, q: &Name, t: u16) {
        let e = refzone::ref_auth(zs, q, t);
        self.rep.eval();
        self.rep.count("e2e/queries");
        self.rep.count(&format!("e2e/kind/{}", e.kind.as_str()));
        if matches!(e.kind, Kind::Referral | Kind::Refused) || e.chain_end == Some(refzone::ChainEnd::Referral) {
            self.rep.count("e2e/dontcare_referral");
            return;
        }
        if e.answer_rrsets() > 8 {
            self.rep.count("e2e/dontcare_long_chain");
            return;
        }
        let mut h = fnv64(&z.canonical_bytes()).to_le_bytes().to_vec();
        h.extend_from_slice(&refzone::wire_name(q));
        h.extend_from_slice(&t.to_be_bytes());
        h.push(0xe2);
        self.rep.nontrivial(fnv64(&h));
        let case = || json!({"kind": "e2e", "zone": z.to_json(), "zone_text": z.to_text(), "qname": refzone::show(q), "qtype": refzone::type_name(t)});
        let raw = match e2e::ask(&self.rt, &served.cat, q, t) {
            Ok(r) => r,
            Err(err) => {
                let (rule, sig) = if err.starts_with("PANIC") { ("panic", format!("server|{}", err.rsplit(" at ").next().unwrap_or(""))) } else { ("completeness", format!("{}|no-response|server", e.kind.as_str())) };
                self.report(rule, sig, case(), json!("one response"), json!(err));
                return;
            }
        };
        let shape = match shape_of(&raw) {
            Ok(s) => s,
            Err(err) => {
                self.report("completeness", format!("{}|malformed-response|server", e.kind.as_str()), case(), json!("well-formed response"), json!({"error": err, "hex": hex(&raw)}));
                return;
            }
        };
        let val = match e2e::validate(&self.rt, v, q, t) {
            Ok(x) => x,
            Err(p) => {
                self.report("panic", format!("validator|{}", p.site()), case(), json!("a verdict"), json!({"panic": p.message, "at": p.location}));
                return;
            }
        };
        // does the server's response have the shape RefAuth prescribes?
        let got: BTreeSet<&refzone::Rr> = shape.answers.iter().collect();
        let want_all = e.answer_section();
        let want: BTreeSet<&refzone::Rr> = want_all.iter().collect();
        let sk = shape_kind(&shape);
        let expected_shape = match e.kind {
            Kind::Nxdomain => "nxdomain",
            Kind::Nodata | Kind::WildcardNodata | Kind::EntNodata => "nodata",
            Kind::WildcardAnswer | Kind::WildcardCname => "wildcard-answer",
            Kind::Answer | Kind::CnameChain => "answer",
            Kind::Referral | Kind::Refused => unreachable!(),
        };
        let rcode_ok = shape.rcode == e.rcode as u16 || Some(shape.rcode) == e.alt_rcode.map(|r| r as u16);
        let kind_ok = sk == expected_shape || (e.kind == Kind::CnameChain && sk == "wildcard-answer" && e.steps.iter().any(|s| s.kind.is_wildcard()));
        let server_ok = rcode_ok && kind_ok && got == want;
        let observed = || {
            json!({
                "server_response": {"shape": sk, "rcode": shape.rcode, "answers": shape.answers.iter().map(refzone::show_rr).collect::<Vec<_>>(),
                    "answer_rrsigs": shape.answer_sigs.iter().map(|(o, t, l)| format!("{} RRSIG({}) labels={}", refzone::show(o), refzone::type_name(*t), l)).collect::<Vec<_>>(),
                    "soa_in_authority": shape.soa, "nsecs": shape.nsecs.iter().map(|n| n.show()).collect::<Vec<_>>(), "hex": hex(&raw)},
                "validator": {"accepted": val.accepted(), "class": val.reject_class(), "detail": val.detail, "rcode": val.rcode,
                    "answers": val.answers.iter().map(|(o, t, p)| format!("{} {} {}", refzone::show(o), refzone::type_name(*t), p)).collect::<Vec<_>>(),
                    "authority": val.authority.iter().map(|(o, t, p)| format!("{} {} {}", refzone::show(o), refzone::type_name(*t), p)).collect::<Vec<_>>()},
            })
        };
        let accepted = val.accepted();
        self.rep.count(if accepted { "e2e/accepted" } else { "e2e/rejected" });
        if !server_ok {
            self.rep.count("e2e/server_answer_wrong");
            let sig_of = |side: &str| format!("{}>{}|{}", e.kind.as_str(), if sk == expected_shape { "different-records" } else { sk }, side);
            // a response of the wrong *shape* that is itself a denial or an expansion claims something
            // the zone does not justify; accepting it is an end-to-end soundness failure
            if accepted && sk != expected_shape && matches!(sk, "nxdomain" | "nodata" | "wildcard-answer" | "nxdomain+answer") {
                self.report("e2e-wrong-answer-accepted", sig_of("server+validator"), case(), json!({"refauth": e.to_json(), "validator": "must not accept a response the zone does not justify"}), observed());
            } else if !accepted {
                self.report("completeness-server-answer-wrong", sig_of("server"), case(), json!({"refauth": e.to_json(), "validator": "accept – but the response itself is not what the zone prescribes (see C10), so no acceptable proof exists"}), observed());
            } else {
                self.rep.count("e2e/dontcare_wrong_positive_answer_accepted");
            }
            return;
        }
        if accepted {
            self.rep.count("e2e/secure");
            self.rep.count(&format!("e2e/secure/{}", e.kind.as_str()));
            if e.kind.is_negative() || e.kind.is_wildcard() {
                self.rep.count("e2e/secure_denials");
                self.rep.sample(|| json!({"workload": "e2e", "query": format!("{} {}", refzone::show(q), refzone::type_name(t)), "kind": e.kind.as_str(), "nsecs": shape.nsecs.iter().map(|n| n.show()).collect::<Vec<_>>(), "validator": "accepted"}));
            }
            return;
        }
        // rejected although the response is right: which side?
        let required = required_nsecs(zs, ref_chain, &e);
        let same_span = |a: &Nsec, b: &Nsec| a.owner == b.owner && a.next == b.next;
        let attached_ok = required.iter().all(|(r, _)| shape.nsecs.iter().any(|x| same_span(x, r)));
        let side = if attached_ok { "validator" } else { "server" };
        let mut feats: Vec<String> = Vec::new();
        // wildcard-expanded RRsets of the answer section: (owner, labels)
        let expansions: Vec<(&Name, usize)> = shape.answer_sigs.iter().filter(|(o, _, l)| (*l as usize) < o.len() && !(refzone::is_wildcard(o) && *l as usize + 1 == o.len())).map(|(o, _, l)| (o, *l as usize)).collect();
        let group = if expansions.is_empty() { e.kind.as_str() } else { "wildcard-expansion" };
        if expansions.iter().any(|(o, _)| *o != q) {
            feats.push("at-cname-target".into());
        } else if let Some((o, l)) = expansions.first() {
            feats.push("at-qname".into());
            if o.len() - l <= 1 {
                feats.push("depth-1".into());
            } else {
                feats.push("depth-2+".into());
                if ref_chain.iter().any(|r| ref_covers(r, o, &zs.apex) && r.next == zs.apex) {
                    feats.push("covering-nsec-wraps".into());
                }
                if refzone::is_wildcard(&refzone::suffix(o, *l)) {
                    feats.push("asterisk-encloser".into());
                }
            }
        } else if !zs.exists(q) && zs.in_zone(q) {
            // the query name does not exist: how far below its closest encloser it is (the server
            // derives the wildcard part of the proof from the parent of the query name)
            let ce = zs.closest_encloser(q);
            feats.push(if q.len() - ce.len() <= 1 { "depth-1".into() } else { "depth-2+".into() });
            if refzone::is_wildcard(&ce) {
                feats.push("asterisk-encloser".into());
            }
        }
        if zs.is_delegation(q) {
            feats.push("at-cut".into());
        }
        if *q == zs.apex {
            feats.push("apex".into());
        }
        if !attached_ok {
            // which part of the proof is missing
            let what = required.iter().filter(|(r, _)| !shape.nsecs.iter().any(|x| same_span(x, r))).map(|(_, why)| *why).collect::<BTreeSet<_>>().into_iter().collect::<Vec<_>>().join("+");
            feats.push(format!("missing-{what}"));
        }
        let sig = format!("{}|{}|{}|{}", group, if feats.is_empty() { "-".to_string() } else { feats.join("+") }, val.reject_class(), side);
        self.report(
            "completeness",
            sig,
            case(),
            json!({"refauth": e.to_json(), "validator": "accepts the server's response", "rfc4035_3_1_3_required_nsecs": required.iter().map(|(n, why)| format!("{}: {}", why, n.show())).collect::<Vec<_>>(), "attached_contains_required": attached_ok}),
            observed(),
        );
    }

    fn zone(&mut self, z: &Zone, qnames: &[Name]) {
        let zs = signed_view(z);
        let served = match e2e::serve(z) {
            Ok(s) => s,
            Err(err) => {
                self.rep.inconclusive(&format!("zone could not be loaded into hickory: {err}"));
                return;
            }
        };
        self.rep.count("e2e/zones");
        self.check_chain(z, &zs, &served.chain);
        let ref_chain = denial::nsec_chain(&zs);
        let (v, _up) = e2e::validator(&served);
        for q in qnames {
            for &t in &QTYPES {
                self.check_query(z, &zs, &ref_chain, &served, &v, q, t);
            }
        }
    }
}

// ---------------------------------------------------------------------------------------------
// replay

/// Evaluate one self-contained case (the `case` object of a witness). Violations go to `rep`;
/// returns their "rule|sig" keys.
fn eval_case(rep: &mut Reporter, c: &Value) -> Result<BTreeSet<String>, String> {
    let z = Zone::from_json(&c["zone"])?;
    let mut out = BTreeSet::new();
    match c["kind"].as_str().unwrap_or("") {
        "h2" => {
            let sibling = if c["sibling"].is_null() { None } else { Some(Zone::from_json(&c["sibling"])?) };
            let q = refzone::name(c["qname"].as_str().ok_or("qname")?);
            let t = refzone::type_code(c["qtype"].as_str().unwrap_or("")).ok_or("qtype")?;
            let tbit = fast::bit_of(t).ok_or("qtype not modelled")?;
            let nx = c["rcode"].as_str() == Some("NXDOMAIN");
            let labels = c["answer_rrsig_labels"].as_u64().map(|l| l as usize);
            if labels.is_some_and(|l| l >= q.len() || l < z.apex.len()) {
                return Err("answer_rrsig_labels out of range".into());
            }
            let soa = !c["soa_owner"].is_null();
            let nsecs: Vec<Nsec> = c["nsecs"].as_array().map(|a| a.iter().filter_map(Nsec::from_json).collect()).unwrap_or_default();
            let env = ZoneEnv::new(&z, sibling.as_ref(), &[q.clone()], &nsecs, None)?;
            let s: Vec<usize> = nsecs.iter().map(|n| env.pool.iter().position(|p| p.nsec == *n).expect("record in pool")).collect();
            let call = Call { q: q.clone(), t, nx, labels, soa, s };
            let query = Query::new(hname(&q), RecordType::from(t));
            let answers = match labels {
                Some(l) => expansion_answers(&q, t, l, &z.apex),
                None => Vec::new(),
            };
            rep.eval();
            match run_call(&env, &call, &answers, &query) {
                Ok(Proof::Secure) => {
                    let qid = env.uni.id(&q).unwrap();
                    let cands = CandSet::build(&env.uni, &env.fz, env.fsib.as_ref(), qid, tbit, true);
                    let mut notes = Vec::new();
                    let mut confirm: ConfirmCache = HashMap::new();
                    if let Some(f) = judge_secure(&env, &cands, &mut confirm, &call, &answers, &query, &mut notes, &mut |_| true) {
                        out.insert(format!("{}|{}", f.rule, f.sig));
                        if f.in_zone {
                            out.insert("(witness: the zone itself)".into());
                        }
                        rep.violation(f.rule, &f.sig, f.case, f.expected, f.observed);
                    }
                }
                Ok(p) => println!("verify_nsec returns {p}"),
                Err(p) => {
                    out.insert(format!("panic|{}", p.site()));
                    rep.violation("panic", &p.site(), case_json(&env, &call), json!("a Proof"), json!({"panic": p.message}));
                }
            }
        }
        "e2e" | "chain" => {
            let rt = tokio::runtime::Builder::new_current_thread().enable_time().build().expect("tokio runtime");
            let mut r = E2eRunner { rep, rt, reported: Default::default() };
            let zs = signed_view(&z);
            let served = e2e::serve(&z)?;
            if c["kind"].as_str() == Some("chain") {
                r.check_chain(&z, &zs, &served.chain);
            } else {
                let q = refzone::name(c["qname"].as_str().ok_or("qname")?);
                let t = refzone::type_code(c["qtype"].as_str().unwrap_or("")).ok_or("qtype")?;
                let ref_chain = denial::nsec_chain(&zs);
                let (v, _up) = e2e::validator(&served);
                r.check_query(&z, &zs, &ref_chain, &served, &v, &q, t);
            }
            out.extend(r.reported.keys().cloned());
        }
        other => return Err(format!("unknown case kind {other:?}")),
    }
    Ok(out)
}

/// `--replay FILE minimize=1`: greedily shrink the witness (drop the sibling, NSEC records, owners,
/// single records) while exactly the same "rule|sig" is produced; the shrunk witness is written as
/// a violation file into --out. Tooling for producing small committed witnesses, no verdict.
fn minimize(ctx: &Ctx, w: &Value) -> Value {
    let target = format!("{}|{}", w["rule"].as_str().unwrap_or(""), w["sig"].as_str().unwrap_or(""));
    let scratch = Ctx { out: ctx.out.join("scratch"), ..ctx.clone() };
    let _ = std::fs::create_dir_all(&scratch.out);
    let marker = "(witness: the zone itself)";
    let run = |c: &Value| -> BTreeSet<String> {
        let mut rep = Reporter::new(&scratch);
        match mon::catch(|| eval_case(&mut rep, c)) {
            Ok(Ok(s)) => s,
            _ => BTreeSet::new(),
        }
    };
    let mut c = w["case"].clone();
    let cm_zone = c["counter_model"]["zone"].clone();
    if let Some(o) = c.as_object_mut() {
        o.remove("counter_model");
        o.remove("zone_text");
    }
    let first = run(&c);
    if !first.contains(&target) {
        eprintln!("the witness does not reproduce {target} on its own; not minimised");
        return c;
    }
    let mut need_marker = first.contains(marker);
    // prefer a witness whose zone is itself the counter-model (every NSEC presented is in N(Z))
    if !need_marker && !cm_zone.is_null() {
        let mut c2 = c.clone();
        c2["zone"] = cm_zone;
        c2["sibling"] = Value::Null;
        let r = run(&c2);
        if r.contains(&target) && r.contains(marker) {
            c = c2;
            need_marker = true;
        }
    }
    let good = |c: &Value| -> bool {
        let s = run(c);
        s.contains(&target) && s.iter().filter(|k| k.as_str() != marker).count() == 1 && (!need_marker || s.contains(marker))
    };
    if !c["sibling"].is_null() {
        let mut c2 = c.clone();
        c2["sibling"] = Value::Null;
        if good(&c2) {
            c = c2;
        }
    }
    loop {
        let mut changed = false;
        // NSEC records
        let n = c["nsecs"].as_array().map_or(0, |a| a.len());
        for i in (0..n).rev() {
            let mut c2 = c.clone();
            c2["nsecs"].as_array_mut().unwrap().remove(i);
            if good(&c2) {
                c = c2;
                changed = true;
            }
        }
        for key in ["zone", "sibling"] {
            if c[key].is_null() {
                continue;
            }
            // whole owners, then single records (the apex keeps SOA and one NS)
            let apex = c[key]["apex"].as_str().unwrap_or("").to_string();
            let owners: BTreeSet<String> = c[key]["records"].as_array().map(|a| a.iter().filter_map(|r| r[0].as_str().map(String::from)).collect()).unwrap_or_default();
            for o in owners {
                if o == apex {
                    continue;
                }
                let mut c2 = c.clone();
                c2[key]["records"].as_array_mut().unwrap().retain(|r| r[0].as_str() != Some(&o));
                if good(&c2) {
                    c = c2;
                    changed = true;
                }
            }
            let n = c[key]["records"].as_array().map_or(0, |a| a.len());
            for i in (0..n).rev() {
                let r = c[key]["records"][i].clone();
                let is_apex = r[0].as_str() == Some(&apex);
                let t = r[1].as_str().unwrap_or("");
                let same = c[key]["records"].as_array().unwrap().iter().filter(|x| x[0] == r[0] && x[1] == r[1]).count();
                if is_apex && (t == "SOA" || t == "DNSKEY" || (t == "NS" && same == 1)) {
                    continue;
                }
                let mut c2 = c.clone();
                c2[key]["records"].as_array_mut().unwrap().remove(i);
                if good(&c2) {
                    c = c2;
                    changed = true;
                }
            }
        }
        if !changed {
            break;
        }
    }
    c
}

fn replay(ctx: &Ctx, rep: &mut Reporter, w: &Value) {
    // a bare case object (hand-written) is accepted as well as a full witness
    let w = if w["case"].is_null() { json!({"case": w.clone()}) } else { w.clone() };
    let case = if ctx.extra.contains_key("minimize") { minimize(ctx, &w) } else { w["case"].clone() };
    if let Err(e) = eval_case(rep, &case) {
        eprintln!("bad replay file: {e}");
        std::process::exit(3)
    }
}

// ---------------------------------------------------------------------------------------------

fn selftest() {
    refzone::selftest();
    // RFC 4035 Appendix A zone: the NSEC chain of the reference must be the one printed there
    let apex = refzone::name("example.");
    let mut z = Zone::new(&apex);
    let f = |t| denial::filler_rdata(t, &apex);
    for t in [ty::SOA, ty::NS, ty::MX, ty::DNSKEY] {
        z.add(&apex, t, f(t));
    }
    z.add(&refzone::name("a.example."), ty::NS, f(ty::NS));
    z.add(&refzone::name("a.example."), ty::DS, f(ty::DS));
    z.add(&refzone::name("ns1.a.example."), ty::A, f(ty::A));
    z.add(&refzone::name("ai.example."), ty::A, f(ty::A));
    z.add(&refzone::name("ai.example."), ty::AAAA, f(ty::AAAA));
    z.add(&refzone::name("b.example."), ty::NS, f(ty::NS));
    z.add(&refzone::name("ns1.b.example."), ty::A, f(ty::A));
    z.add(&refzone::name("ns1.example."), ty::A, f(ty::A));
    z.add(&refzone::name("ns2.example."), ty::A, f(ty::A));
    z.add(&refzone::name("*.w.example."), ty::MX, f(ty::MX));
    z.add(&refzone::name("x.w.example."), ty::MX, f(ty::MX));
    z.add(&refzone::name("x.y.w.example."), ty::MX, f(ty::MX));
    z.add(&refzone::name("xx.example."), ty::A, f(ty::A));
    z.add(&refzone::name("xx.example."), ty::AAAA, f(ty::AAAA));
    let chain: Vec<String> = denial::nsec_chain(&z).iter().map(|n| format!("{} {}", refzone::show(&n.owner), refzone::show(&n.next))).collect();
    let want = [
        "example. a.example.",
        "a.example. ai.example.",
        "ai.example. b.example.",
        "b.example. ns1.example.",
        "ns1.example. ns2.example.",
        "ns2.example. *.w.example.",
        "*.w.example. x.w.example.",
        "x.w.example. x.y.w.example.",
        "x.y.w.example. xx.example.",
        "xx.example. example.",
    ];
    assert_eq!(chain, want, "RFC 4035 Appendix A chain");
    let c = denial::nsec_chain(&z);
    assert_eq!(c[1].types.iter().copied().collect::<Vec<_>>(), vec![ty::NS, ty::DS, 46, 47], "a.example. NS DS RRSIG NSEC");
    assert_eq!(c[3].types.iter().copied().collect::<Vec<_>>(), vec![ty::NS, 46, 47], "b.example. NS RRSIG NSEC");
    // RFC 4035 Appendix B claims
    use denial::claim_truth as ct;
    assert_eq!(ct(&z, &refzone::name("ml.example."), ty::A, &Claim::NxDomain), Truth::True); // B.2
    assert_eq!(ct(&z, &refzone::name("ns1.example."), ty::MX, &Claim::NoData), Truth::True); // B.3
    assert_eq!(ct(&z, &refzone::name("a.z.w.example."), ty::MX, &Claim::Expansion { labels: 2 }), Truth::True); // B.6
    assert_eq!(ct(&z, &refzone::name("a.z.w.example."), ty::AAAA, &Claim::NoData), Truth::True); // B.7
    assert_eq!(ct(&z, &refzone::name("a.example."), ty::DS, &Claim::NoData), Truth::False(Reason::TypePresent));
    assert_eq!(ct(&z, &refzone::name("b.example."), ty::DS, &Claim::NoData), Truth::True); // B.8-like
    assert_eq!(ct(&z, &refzone::name("b.example."), ty::A, &Claim::NoData), Truth::NotEntailable(Reason::AtCut));
    assert_eq!(ct(&z, &refzone::name("mc.b.example."), ty::MX, &Claim::NxDomain), Truth::NotEntailable(Reason::BelowCut));
    assert_eq!(ct(&z, &refzone::name("y.w.example."), ty::A, &Claim::NxDomain), Truth::False(Reason::QnameExists)); // ENT
    assert_eq!(ct(&z, &refzone::name("a.y.w.example."), ty::MX, &Claim::Expansion { labels: 2 }), Truth::False(Reason::CloserEncloser));
    assert_eq!(ct(&z, &refzone::name("a.z.w.example."), ty::MX, &Claim::NxDomain), Truth::False(Reason::WildcardMatches));
}

fn main() {
    let ctx = Ctx::from_args("C08");
    mon::install_panic_monitor();
    let mut rep = Reporter::new(&ctx);
    selftest();

    if let Some(w) = ctx.replay_case() {
        replay(&ctx, &mut rep, &w);
        rep.replay_finish();
    }

    let thorough = ctx.is_thorough();
    // Secure counts depend on the validator under test: a correct (stricter) one accepts only the entailed
    // proofs (≈ 0.8 M per quick run) and, at cuts, only DS-absence (≈ 3 k); thresholds stay well below that.
    rep.must("h2/secure", 100_000);
    rep.must("h2/bogus", 3_000_000);
    rep.must("h2/secure_entailed", 200_000);
    for (k, min) in [("nxdomain", 50_000), ("nodata", 10_000), ("wildcard-expansion", 2_000), ("wildcard-nodata", 10_000), ("ent-nodata", 1_000), ("ds-nodata-at-cut", 100)] {
        rep.must(&format!("secure_true/{k}"), min);
    }
    rep.must("h2/cut_case_calls", 100_000);
    rep.must("h2/cut_case_secure", 300);
    rep.must("h2/zones_all_subsets_swept", 16);
    rep.must("h2/calls_in_all_subset_sweeps", 1_000_000);
    rep.must("h2/calls_soa_absent", 1_000_000);
    rep.must("h2/candidates_crosschecked", 500);
    rep.must("e2e/secure", 10_000);
    rep.must("e2e/secure_denials", 10_000);
    rep.must("e2e/chains_compared", 100);
    rep.must("e2e/apex_only_zones", 4);
    let _ = thorough;

    let apex = refzone::default_apex();
    let qnames = refzone::query_names(&apex, 3, refzone::FRESH_LABEL);

    // ---- (1) soundness at H2
    {
        let mut rng = ctx.rng("h2");
        let mut run = H2Runner { rep: &mut rep, reported: Default::default() };
        let n_small = ctx.budget(48, 2400);
        for _ in 0..n_small {
            let z = gen_small_zone(&mut rng);
            h2_zone(&mut run, &mut rng, &z, &qnames, &SweepCfg { full: true, n_rand: 0, n_mix: 24 });
        }
        let n_big = ctx.budget(160, 7200);
        for _ in 0..n_big {
            let z = gen_big_zone(&mut rng);
            h2_zone(&mut run, &mut rng, &z, &qnames, &SweepCfg { full: false, n_rand: 24, n_mix: 12 });
        }
    }

    // ---- (2) completeness end to end
    {
        let mut rng = ctx.rng("e2e");
        let rt = tokio::runtime::Builder::new_current_thread().enable_time().build().expect("tokio runtime");
        let mut run = E2eRunner { rep: &mut rep, rt, reported: Default::default() };
        let n = ctx.budget(320, 18_000);
        for i in 0..n {
            let mut z = if i % 3 == 0 { gen_small_zone(&mut rng) } else { refzone::gen_zone(&mut rng, &refzone::GenCfg::default()) };
            if i % 40 == 7 {
                // a zone that consists of its apex only: the NSEC chain is one record pointing to itself
                let others: Vec<Name> = z.owners().filter(|o| **o != z.apex).cloned().collect();
                for o in others {
                    z.remove_name(&o);
                }
                run.rep.count("e2e/apex_only_zones");
            }
            run.zone(&z, &qnames);
        }
    }

    std::process::exit(rep.finish().min(0));
}

#[allow(dead_code)]
fn unused(_: HashMap<u8, u8>) {}
