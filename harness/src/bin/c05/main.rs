//! C05 — RRset signed data equals the RFC 4034/4035 canonical form.
//!
//! Observation points: `TBS::from_input(..).as_ref()` (bytes), `Verifier::verify_rrsig` on
//! reference-signed RRsets, `RRSIG::from_rrset` output checked by the reference verifier.
//! Oracle: `refsign` (independent; ring directly).
//!
//! Third-party direction beyond what ring can sign (RSA/SHA-1, RSA keys of 1024..4096 bits,
//! unusual exponents; also ECDSA/Ed25519 made by another implementation): known-answer vectors
//! produced once with the OpenSSL CLI, `kat.rs` + `data/kat/` (rules `third-party-rejected`,
//! `third-party-forgery-accepted`).
//!
//! Don't-cares: Labels greater than the owner's label count (must be an error; checked as such).

mod kat;
mod refsign;

use std::time::Duration;

use hickory_proto::dnssec::crypto::{EcdsaSigningKey, Ed25519SigningKey, RsaSigningKey};
use hickory_proto::dnssec::rdata::{DNSKEY, RRSIG};
use hickory_proto::dnssec::rdata::sig::SigInput;
use hickory_proto::dnssec::{Algorithm, DnssecSigner, PublicKeyBuf, SigningKey, Verifier, TBS};
use hickory_proto::rr::{DNSClass, Name, RData, Record, RecordSet, RecordType, SerialNumber};
use hickory_proto::serialize::binary::BinDecoder;
use rustls_pki_types::PrivatePkcs8KeyDer;
use serde_json::{json, Value};

use refsign::{RefKey, SigFields};
use vh::gen::{self, WireBuilder, F};
use vh::hk;
use vh::mon::{self, hex, unhex, Ctx, Reporter};
use vh::prng::{fnv64, Rng};
use vh::refwire::Labels;

const RSA1: &[u8] = include_bytes!("../../../data/rsa-2048-1.pk8");

/// types exercised (hickory-implemented data types)
const SIGN_TYPES: &[u16] = &[1, 2, 5, 6, 10, 12, 13, 15, 16, 25, 28, 33, 35, 37, 43, 44, 47, 48, 50, 51, 52, 53, 59, 60, 61, 62, 64, 65, 257, 46];
/// RFC 4034 §6.2-listed types that hickory does not implement (decoded as unknown/opaque)
const LISTED_UNIMPLEMENTED: &[(u16, &str, &[F])] = &[
    (39, "DNAME", &[F::NameNC]),
    (36, "KX", &[F::U16, F::NameNC]),
    (17, "RP", &[F::NameNC, F::NameNC]),
    (18, "AFSDB", &[F::U16, F::NameNC]),
];

#[derive(Clone, Debug)]
struct Case {
    owner: Labels,
    class: u16,
    rtype: u16,
    /// (raw uncompressed rdata, received ttl)
    recs: Vec<(Vec<u8>, u32)>,
    sig: SigFields,
    features: Vec<&'static str>,
}

impl Case {
    fn to_json(&self) -> Value {
        json!({
            "owner": self.owner.iter().map(|l| hex(l)).collect::<Vec<_>>(),
            "class": self.class, "rtype": self.rtype,
            "recs": self.recs.iter().map(|(r, t)| json!({"rdata": hex(r), "ttl": t})).collect::<Vec<_>>(),
            "sig": {"type_covered": self.sig.type_covered, "algorithm": self.sig.algorithm, "labels": self.sig.labels,
                    "original_ttl": self.sig.original_ttl, "expiration": self.sig.expiration, "inception": self.sig.inception,
                    "key_tag": self.sig.key_tag, "signer": self.sig.signer.iter().map(|l| hex(l)).collect::<Vec<_>>()},
            "features": self.features,
        })
    }
    fn from_json(v: &Value) -> Option<Case> {
        let labels = |x: &Value| -> Labels { x.as_array().map(|a| a.iter().map(|l| unhex(l.as_str().unwrap_or(""))).collect()).unwrap_or_default() };
        let s = &v["sig"];
        Some(Case {
            owner: labels(&v["owner"]),
            class: v["class"].as_u64()? as u16,
            rtype: v["rtype"].as_u64()? as u16,
            recs: v["recs"].as_array()?.iter().map(|r| (unhex(r["rdata"].as_str().unwrap_or("")), r["ttl"].as_u64().unwrap_or(0) as u32)).collect(),
            sig: SigFields {
                type_covered: s["type_covered"].as_u64()? as u16,
                algorithm: s["algorithm"].as_u64()? as u8,
                labels: s["labels"].as_u64()? as u8,
                original_ttl: s["original_ttl"].as_u64()? as u32,
                expiration: s["expiration"].as_u64()? as u32,
                inception: s["inception"].as_u64()? as u32,
                key_tag: s["key_tag"].as_u64()? as u16,
                signer: labels(&s["signer"]),
            },
            features: vec![],
        })
    }
    fn hash(&self) -> u64 {
        fnv64(self.to_json().to_string().as_bytes())
    }
}

fn flip_case(rng: &mut Rng, b: &mut [u8]) {
    for c in b.iter_mut() {
        if c.is_ascii_alphabetic() && rng.bool() {
            *c ^= 0x20;
        }
    }
}

fn mixed_name(rng: &mut Rng) -> Labels {
    let style = if rng.chance(1, 5) { gen::NameStyle::Binary } else { gen::NameStyle::Host };
    let mut n = gen::name(rng, style);
    n.truncate(6);
    if n.is_empty() && rng.chance(3, 4) {
        n.push(b"Example".to_vec());
    }
    n
}

fn raw_rdata(rng: &mut Rng, rtype: u16, schema_override: Option<&[F]>) -> Vec<u8> {
    let mut w = WireBuilder::new(0);
    let mut names = |r: &mut Rng| mixed_name(r);
    if let Some(schema) = schema_override {
        for f in schema {
            match f {
                F::NameNC | F::NameC => {
                    let n = names(rng);
                    w.name(rng, &n, false)
                }
                F::U16 => w.buf.extend_from_slice(&rng.u16().to_be_bytes()),
                _ => {}
            }
        }
    } else if rtype == 257 {
        // CAA: flags, tag (ASCII alphanumeric), value
        w.buf.push(*rng.pick(&[0u8, 128]));
        let tag = *rng.pick(&[&b"issue"[..], b"issuewild", b"iodef", b"Abc123"]);
        w.buf.push(tag.len() as u8);
        w.buf.extend_from_slice(tag);
        let v = rng.bytes_between(0, 20);
        w.buf.extend(v.iter().map(|c| b'a' + c % 26));
    } else if rtype == 35 {
        // NAPTR: order, preference, flags, services, regexp, replacement
        w.buf.extend_from_slice(&rng.u16().to_be_bytes());
        w.buf.extend_from_slice(&rng.u16().to_be_bytes());
        for cs in [*rng.pick(&[&b"U"[..], b"s", b"", b"A"]), *rng.pick(&[&b"SIP+D2U"[..], b"", b"E2U+sip"]), *rng.pick(&[&b"!^.*$!sip:info@Example.com!"[..], b""])] {
            w.buf.push(cs.len() as u8);
            w.buf.extend_from_slice(cs);
        }
        let n = names(rng);
        w.name(rng, &n, false);
    } else {
        w.rdata(rng, rtype, &mut names);
    }
    let mut b = w.buf;
    // keep fixed-position fields inside the value ranges hickory's decoders accept, so that
    // these types are not starved (the oracle is about signed data, not about decode strictness)
    match rtype {
        50 | 51 if b.len() >= 2 => {
            b[0] = 1; // SHA-1
            b[1] &= 1; // opt-out flag only
        }
        25 if b.len() >= 2 => {
            b[0] &= !0b0011_1100;
            b[1] &= !0b1111_0000;
        }
        62 if b.len() >= 6 => {
            b[4] = 0;
            b[5] &= 3;
        }
        _ => {}
    }
    b
}

fn gen_case(rng: &mut Rng, algorithm: u8, key_tag: u16, rtype: u16, schema_override: Option<&'static [F]>) -> Case {
    let mut features: Vec<&'static str> = Vec::new();
    let mut owner = mixed_name(rng);
    if rng.chance(1, 8) {
        owner.insert(0, b"*".to_vec());
        features.push("wildcard-owner");
    }
    let class = if rng.chance(1, 25) { 3 } else { 1 };
    let n = match rng.below(10) {
        0..=2 => 1,
        3..=7 => rng.urange(2, 4),
        _ => rng.urange(5, 8),
    };
    let base_ttl = *rng.pick(&[0u32, 1, 60, 300, 3600, 86400, 0x7fff_ffff]);
    let mut recs: Vec<(Vec<u8>, u32)> = Vec::new();
    for _ in 0..n {
        recs.push((raw_rdata(rng, rtype, schema_override), base_ttl));
    }
    let has_names = schema_override.is_some()
        || gen::type_info(rtype).map(|t| t.schema.iter().any(|f| matches!(f, F::NameC | F::NameNC))).unwrap_or(false);
    // related records: same RDATA prefix, differing tail / shorter — exercises §6.3 ordering
    if recs.len() >= 2 && rng.chance(1, 3) {
        let mut r = recs[0].0.clone();
        if let Some(last) = r.last_mut() {
            *last = last.wrapping_add(1);
        }
        if RData::read(BinDecoder::new(&r), RecordType::from(rtype)).is_ok() {
            recs[1].0 = r;
            features.push("near-duplicate");
        }
    }
    if rng.chance(1, 4) {
        // exact duplicate
        let d = rng.pick(&recs).clone();
        recs.push(d);
        features.push("duplicate");
    }
    if rng.chance(1, 6) {
        // duplicate differing only in TTL
        let mut d = rng.pick(&recs).clone();
        d.1 = d.1.wrapping_add(17);
        recs.push(d);
        features.push("duplicate-ttl");
    }
    if has_names && rng.chance(1, 6) {
        // duplicate differing only in the letter case of embedded names
        let mut d = rng.pick(&recs).clone();
        let before = d.0.clone();
        flip_case(rng, &mut d.0);
        if d.0 != before && refsign::canonical_rdata(rtype, &d.0).ok() == refsign::canonical_rdata(rtype, &before).ok() {
            recs.push(d);
            features.push("duplicate-case");
        }
    }
    if rng.chance(1, 3) && recs.len() > 1 {
        // unequal received TTLs inside the RRset
        for r in recs.iter_mut() {
            if rng.bool() {
                r.1 = *rng.pick(&[0u32, 5, 59, 299, 7200]);
            }
        }
        features.push("mixed-ttl");
    }
    rng.shuffle(&mut recs);
    if recs.len() > 1 {
        features.push("multi");
    }
    if has_names {
        features.push("rdata-names");
    }
    let lc = refsign::label_count(&owner);
    let labels = if lc > 0 && rng.chance(1, 5) {
        features.push("labels-reduced");
        rng.below(lc as u64) as u8
    } else {
        lc as u8
    };
    let mut signer = owner[owner.len().saturating_sub(rng.usize_below(owner.len() + 1))..].to_vec();
    if signer.first().map(|l| l.as_slice() == b"*").unwrap_or(false) {
        signer.remove(0);
    }
    for l in signer.iter_mut() {
        flip_case(rng, l);
    }
    let original_ttl = if rng.chance(1, 3) { base_ttl } else { *rng.pick(&[0u32, 1, 300, 3600, 0xffff_ffff]) };
    let (inception, expiration) = match rng.below(5) {
        0 => (0, 0xffff_ffff),
        1 => (0xffff_ff00, 0x100),
        _ => {
            let i = rng.next_u32();
            (i, i.wrapping_add(rng.range(0, 0x7fff_ffff) as u32))
        }
    };
    Case { owner, class, rtype, recs, sig: SigFields { type_covered: rtype, algorithm, labels, original_ttl, expiration, inception, key_tag, signer }, features }
}

// ---------------------------------------------------------------------------------------------
// hickory side

struct HkCase {
    name: Name,
    class: DNSClass,
    input: SigInput,
    records: Vec<Record>,
}

fn to_hickory(c: &Case) -> Result<HkCase, String> {
    let name = hk::to_name(&c.owner)?;
    let rt = RecordType::from(c.rtype);
    let class = DNSClass::from(c.class);
    let mut records = Vec::new();
    for (raw, ttl) in &c.recs {
        let rd = RData::read(BinDecoder::new(raw), rt).map_err(|e| format!("rdata decode: {e}"))?;
        let mut r = Record::from_rdata(name.clone(), *ttl, rd);
        r.dns_class = class;
        records.push(r);
    }
    let input = SigInput {
        type_covered: rt,
        algorithm: Algorithm::from_u8(c.sig.algorithm),
        num_labels: c.sig.labels,
        original_ttl: c.sig.original_ttl,
        sig_expiration: SerialNumber::new(c.sig.expiration),
        sig_inception: SerialNumber::new(c.sig.inception),
        key_tag: c.sig.key_tag,
        signer_name: hk::to_name(&c.sig.signer)?,
    };
    Ok(HkCase { name, class, input, records })
}

/// Explain a mismatch between hickory's TBS and the reference: returns a structural class.
fn classify(c: &Case, hick: &[u8]) -> String {
    let prefix = refsign::rrsig_rdata_prefix(&c.sig);
    if hick.len() < prefix.len() || hick[..prefix.len()] != prefix[..] {
        return "sig-rdata".into();
    }
    let raws: Vec<Vec<u8>> = c.recs.iter().map(|r| r.0.clone()).collect();
    let Ok(with_dups) = refsign::canonical_rrs(&c.owner, c.class, &c.sig, &raws, false) else { return "reference-error".into() };
    let Ok(deduped) = refsign::canonical_rrs(&c.owner, c.class, &c.sig, &raws, true) else { return "reference-error".into() };
    let body = &hick[prefix.len()..];
    let concat = |v: &[Vec<u8>]| v.iter().flat_map(|x| x.iter().copied()).collect::<Vec<u8>>();
    if body == concat(&with_dups).as_slice() {
        // only difference: duplicates were kept
        let case_dup = c.recs.iter().map(|r| &r.0).collect::<std::collections::BTreeSet<_>>().len() > deduped.len();
        let exact_dup = c.recs.iter().map(|r| &r.0).collect::<std::collections::BTreeSet<_>>().len() < c.recs.len();
        return match (exact_dup, case_dup) {
            (true, false) => "duplicate-kept|exact".into(),
            (false, true) => "duplicate-kept|case-variant".into(),
            _ => "duplicate-kept|mixed".into(),
        };
    }
    // permutation of the reference RRs (with or without dups)?
    let split = |body: &[u8]| -> Option<Vec<Vec<u8>>> {
        // cut body greedily using the multiset of reference RR blobs
        let mut rest = body;
        let mut out = Vec::new();
        let mut pool: Vec<Vec<u8>> = with_dups.clone();
        while !rest.is_empty() {
            let idx = pool.iter().position(|b| rest.starts_with(b))?;
            let b = pool.remove(idx);
            rest = &rest[b.len()..];
            out.push(b);
        }
        Some(out)
    };
    if let Some(parts) = split(body) {
        let dup_kept = parts.len() > deduped.len();
        let mixed_ttl = c.recs.iter().map(|r| r.1).collect::<std::collections::BTreeSet<_>>().len() > 1;
        let has_upper_names = {
            let canon: Vec<_> = raws.iter().filter_map(|r| refsign::canonical_rdata(c.rtype, r).ok()).collect();
            canon.iter().zip(raws.iter()).any(|(a, b)| a != b)
        };
        let mut s = String::from("order");
        if mixed_ttl {
            s.push_str("|ttl-before-rdata");
        } else if has_upper_names {
            s.push_str("|rdata-name-case");
        } else {
            s.push_str("|other");
        }
        if dup_kept {
            s.push_str("+duplicate-kept");
        }
        return s;
    }
    // content differs: owner or RDATA. If the two byte strings are equal up to ASCII case the
    // difference is a missing/extra case folding.
    let lower = |b: &[u8]| b.iter().map(|x| x.to_ascii_lowercase()).collect::<Vec<u8>>();
    let split_rrs = |mut b: &[u8]| -> Option<Vec<Vec<u8>>> {
        let mut out = Vec::new();
        while !b.is_empty() {
            let mut p = 0;
            loop {
                let l = *b.get(p)? as usize;
                p += 1 + l;
                if l == 0 {
                    break;
                }
            }
            let rdlen = u16::from_be_bytes([*b.get(p + 8)?, *b.get(p + 9)?]) as usize;
            let end = p + 10 + rdlen;
            if end > b.len() {
                return None;
            }
            out.push(lower(&b[..end]));
            b = &b[end..];
        }
        Some(out)
    };
    if let Some(mut got) = split_rrs(body) {
        let mut want_dups: Vec<Vec<u8>> = with_dups.iter().map(|b| lower(b)).collect();
        let mut want: Vec<Vec<u8>> = deduped.iter().map(|b| lower(b)).collect();
        got.sort();
        got.dedup();
        want.sort();
        want.dedup();
        want_dups.clear();
        if got == want {
            // same RRs up to ASCII case (and possibly order/duplicates that follow from it)
            return format!("case-folding|type-{}", c.rtype);
        }
    }
    format!("content|type-{}", c.rtype)
}

struct Keys {
    hk_signers: Vec<(u8, DnssecSigner, Vec<u8>)>, // (alg, signer, dnskey public bytes)
    ref_keys: Vec<RefKey>,
}

fn hickory_signing_key(k: &RefKey) -> Box<dyn SigningKey> {
    let der = PrivatePkcs8KeyDer::from(k.pkcs8().to_vec());
    match k.algorithm() {
        refsign::ALG_ED25519 => Box::new(Ed25519SigningKey::from_pkcs8(&der).expect("ed25519")),
        refsign::ALG_P256 => Box::new(EcdsaSigningKey::from_pkcs8(&der, Algorithm::ECDSAP256SHA256).expect("p256")),
        refsign::ALG_P384 => Box::new(EcdsaSigningKey::from_pkcs8(&der, Algorithm::ECDSAP384SHA384).expect("p384")),
        refsign::ALG_RSASHA256 => Box::new(RsaSigningKey::from_pkcs8(&der, Algorithm::RSASHA256).expect("rsa256")),
        refsign::ALG_RSASHA512 => Box::new(RsaSigningKey::from_pkcs8(&der, Algorithm::RSASHA512).expect("rsa512")),
        a => panic!("alg {a}"),
    }
}

fn make_keys() -> Keys {
    let mut ref_keys = Vec::new();
    let mut hk_signers = Vec::new();
    for alg in [refsign::ALG_ED25519, refsign::ALG_P256, refsign::ALG_P384, refsign::ALG_RSASHA256, refsign::ALG_RSASHA512] {
        let k = RefKey::generate(alg, RSA1);
        let public = k.dnskey_public();
        let sk = hickory_signing_key(&k);
        let dnskey = DNSKEY::with_flags(256, PublicKeyBuf::new(public.clone(), Algorithm::from_u8(alg)));
        let signer = DnssecSigner::new(dnskey, sk, Name::root(), Duration::from_secs(86400));
        hk_signers.push((alg, signer, public));
        ref_keys.push(k);
    }
    Keys { hk_signers, ref_keys }
}

struct Checker<'a> {
    rep: &'a mut Reporter,
}

impl Checker<'_> {
    /// clause 1: TBS bytes == reference bytes
    fn check_tbs(&mut self, c: &Case) -> Option<String> {
        self.rep.eval();
        let raws: Vec<Vec<u8>> = c.recs.iter().map(|r| r.0.clone()).collect();
        if raws.iter().any(|r| refsign::canonical_rdata(c.rtype, r).is_err()) {
            // the generator's byte-level edits broke an embedded name: not a well-formed RR
            self.rep.count("skipped_malformed_raw");
            return None;
        }
        let reference = refsign::signed_data(&c.owner, c.class, &c.sig, &raws);
        let h = match to_hickory(c) {
            Ok(h) => h,
            Err(e) => {
                self.rep.count("skipped_undecodable");
                let _ = e;
                self.rep.count(&format!("undecodable/type-{}", if c.rtype < 300 || c.rtype == 65305 { c.rtype.to_string() } else { "unknown".into() }));
                return None;
            }
        };
        let got = mon::catch(|| TBS::from_input(&h.name, h.class, &h.input, h.records.iter()).map(|t| t.as_ref().to_vec()));
        match (reference, got) {
            (_, Err(p)) => {
                let sig = format!("tbs|{}", p.site());
                self.rep.violation("panic", &sig, c.to_json(), json!("Ok or Err"), json!({"panic": p.message, "at": p.location}));
                Some(sig)
            }
            (Err(_), Ok(Err(_))) => {
                self.rep.count("labels_exceed_rejected");
                None
            }
            (Err(e), Ok(Ok(_))) => {
                self.rep.violation("labels-exceed-accepted", "tbs", c.to_json(), json!(e), json!("Ok"));
                Some("labels".into())
            }
            (Ok(_), Ok(Err(e))) => {
                let sig = format!("type-{}", c.rtype);
                self.rep.violation("tbs-error", &sig, c.to_json(), json!("signed data"), json!(e.to_string()));
                Some(sig)
            }
            (Ok(r), Ok(Ok(g))) => {
                if c.recs.len() >= 2 || c.features.contains(&"rdata-names") {
                    self.rep.nontrivial(c.hash());
                }
                self.rep.count(&format!("type/{}", if SIGN_TYPES.contains(&c.rtype) || LISTED_UNIMPLEMENTED.iter().any(|t| t.0 == c.rtype) { c.rtype.to_string() } else { "unknown".into() }));
                for f in &c.features {
                    self.rep.count(&format!("feature/{f}"));
                }
                if r == g {
                    self.rep.count("tbs_equal");
                    None
                } else {
                    let sig = classify(c, &g);
                    self.rep.violation("tbs-mismatch", &sig, c.to_json(), json!(hex(&r)), json!(hex(&g)));
                    Some(sig)
                }
            }
        }
    }

    /// clause 2: reference-signed RRset must verify with hickory's verifier
    fn check_ref_signed(&mut self, c: &Case, key: &RefKey, tbs_class: Option<&str>) {
        let raws: Vec<Vec<u8>> = c.recs.iter().map(|r| r.0.clone()).collect();
        let Ok(data) = refsign::signed_data(&c.owner, c.class, &c.sig, &raws) else { return };
        let Ok(h) = to_hickory(c) else { return };
        self.rep.eval();
        let sigbytes = key.sign(&data);
        // sanity: the reference verifier accepts its own signature
        if !refsign::verify(c.sig.algorithm, &key.dnskey_public(), &data, &sigbytes) {
            self.rep.inconclusive("reference signer/verifier disagree (harness bug)");
            return;
        }
        let rrsig = RRSIG::from_sig(h.input.clone(), sigbytes);
        let dnskey = DNSKEY::with_flags(256, PublicKeyBuf::new(key.dnskey_public(), Algorithm::from_u8(c.sig.algorithm)));
        let res = mon::catch(|| dnskey.verify_rrsig(&h.name, h.class, &rrsig, h.records.iter()));
        self.rep.count(&format!("ref_signed/alg-{}", c.sig.algorithm));
        match res {
            Ok(Ok(())) => self.rep.count("ref_signed_accepted"),
            Ok(Err(e)) => {
                if tbs_class.is_some() {
                    // consequence of the byte mismatch already reported for this very case
                    self.rep.count("ref_signed_rejected_explained_by_tbs_mismatch");
                } else {
                    let sig = format!("alg-{}|bytes-equal", c.sig.algorithm);
                    self.rep.violation("ref-signed-rejected", &sig, c.to_json(), json!("verify_rrsig Ok"), json!(e.to_string()));
                }
            }
            Err(p) => self.rep.violation("panic", &format!("verify|{}", p.site()), c.to_json(), json!("Ok or Err"), json!({"panic": p.message})),
        }
    }

    /// clause 3: RRset signed by hickory's signer verifies with the reference verifier (and,
    /// reported separately as selfcheck, with hickory's own verifier)
    fn check_hickory_signed(&mut self, c: &Case, alg: u8, signer: &DnssecSigner, public: &[u8]) {
        let Ok(h) = to_hickory(c) else { return };
        // an RRset as the server stores it: distinct records, one TTL
        let mut set = RecordSet::with_ttl(h.name.clone(), RecordType::from(c.rtype), c.sig.original_ttl);
        let mut raws: Vec<Vec<u8>> = Vec::new();
        for (r, (raw, _)) in h.records.iter().zip(c.recs.iter()) {
            let mut r = r.clone();
            r.ttl = c.sig.original_ttl;
            if set.insert(r, 0) {
                raws.push(raw.clone());
            }
        }
        if raws.is_empty() {
            return;
        }
        self.rep.eval();
        let inception = time::OffsetDateTime::from_unix_timestamp(1_700_000_000).unwrap();
        let res = mon::catch(|| RRSIG::from_rrset(&set, h.class, inception, signer));
        let rrsig = match res {
            Ok(Ok(s)) => s,
            Ok(Err(e)) => {
                self.rep.violation("signer-error", &format!("type-{}", c.rtype), c.to_json(), json!("RRSIG"), json!(e.to_string()));
                return;
            }
            Err(p) => {
                self.rep.violation("panic", &format!("sign|{}", p.site()), c.to_json(), json!("Ok or Err"), json!({"panic": p.message}));
                return;
            }
        };
        let i = rrsig.input();
        let sf = SigFields {
            type_covered: u16::from(i.type_covered),
            algorithm: u8::from(i.algorithm),
            labels: i.num_labels,
            original_ttl: i.original_ttl,
            expiration: i.sig_expiration.get(),
            inception: i.sig_inception.get(),
            key_tag: i.key_tag,
            signer: hk::labels_of(&i.signer_name),
        };
        self.rep.count(&format!("hk_signed/alg-{alg}"));
        // RecordSet::insert may have replaced records (e.g. CNAME/SOA singletons): use what it holds
        let kept: Vec<Vec<u8>> = if set.records_without_rrsigs().count() == raws.len() { raws } else {
            // fall back: only judge when the set holds exactly what we inserted
            self.rep.count("hk_signed_skipped_set_semantics");
            return;
        };
        let owner_ok = sf.labels as usize == refsign::label_count(&c.owner) && sf.type_covered == c.rtype && sf.original_ttl == c.sig.original_ttl;
        if !owner_ok {
            self.rep.violation("signer-fields", &format!("type-{}", c.rtype), c.to_json(), json!("labels/type/ttl of RRset"), json!(format!("{sf:?}")));
            return;
        }
        match refsign::signed_data(&c.owner, c.class, &sf, &kept) {
            Ok(data) => {
                if refsign::verify(alg, public, &data, rrsig.sig()) {
                    self.rep.count("hk_signed_ref_accepted");
                } else {
                    // classify through the byte comparison of this very RRset
                    let cc = Case { recs: kept.iter().map(|r| (r.clone(), c.sig.original_ttl)).collect(), sig: sf.clone(), ..c.clone() };
                    let tbs = to_hickory(&cc).ok().and_then(|h| TBS::from_input(&h.name, h.class, &h.input, h.records.iter()).ok());
                    match tbs {
                        Some(t) if t.as_ref() != data.as_slice() => {
                            // the signer signed non-canonical bytes: same defect class as clause 1
                            let cls = classify(&cc, t.as_ref());
                            self.rep.violation("tbs-mismatch", &cls, cc.to_json(), json!(hex(&data)), json!(hex(t.as_ref())));
                        }
                        _ => self.rep.violation("hickory-signed-rejected-by-reference", &format!("alg-{alg}|bytes-equal"), cc.to_json(), json!("reference verifier accepts"), json!("rejects")),
                    }
                }
            }
            Err(_) => self.rep.count("hk_signed_skipped_malformed_raw"),
        }
        // selfcheck (reported separately, never evidence of conformance)
        let dnskey = signer.dnskey().clone();
        match dnskey.verify_rrsig(&h.name, h.class, &rrsig, set.records_without_rrsigs()) {
            Ok(()) => self.rep.count("selfcheck_ok"),
            Err(e) => self.rep.violation("selfcheck-failed", &format!("alg-{alg}"), c.to_json(), json!("own verifier accepts own signature"), json!(e.to_string())),
        }
    }
}

fn main() {
    // generator mode (used once by data/kat/gen.py, never by the driver):
    //   c05 --kat-emit DIR --kat-keys KEYS.json
    let args: Vec<String> = std::env::args().collect();
    if let Some(i) = args.iter().position(|a| a == "--kat-emit") {
        let dir = args.get(i + 1).cloned().unwrap_or_default();
        let keys = args.iter().position(|a| a == "--kat-keys").and_then(|j| args.get(j + 1)).cloned().unwrap_or_default();
        match kat::emit(&dir, &keys) {
            Ok(n) => {
                println!("kat-emit: {n} cases written to {dir}");
                std::process::exit(0)
            }
            Err(e) => {
                eprintln!("kat-emit: {e}");
                std::process::exit(3)
            }
        }
    }
    let ctx = Ctx::from_args("C05");
    mon::install_panic_monitor();
    let mut rep = Reporter::new(&ctx);
    let keys = make_keys();

    if let Some(w) = ctx.replay_case() {
        if w["case"]["kat"].is_object() {
            // witness of the known-answer part: self-contained (RRset, RRSIG, DNSKEY, signature)
            let Some(v) = kat::Vector::from_json(&w["case"]) else {
                eprintln!("bad known-answer case");
                std::process::exit(3)
            };
            let mut r = Rng::new(fnv64(w["case"].to_string().as_bytes()));
            let mut ck = Checker { rep: &mut rep };
            ck.check_kat(&v, &mut r);
            rep.replay_finish();
        }
        let Some(c) = Case::from_json(&w["case"]) else {
            eprintln!("bad case");
            std::process::exit(3)
        };
        let mut ck = Checker { rep: &mut rep };
        let cls = ck.check_tbs(&c);
        if let Some(k) = keys.ref_keys.iter().find(|k| k.algorithm() == c.sig.algorithm) {
            let mut c2 = c.clone();
            c2.sig.key_tag = refsign::key_tag(&refsign::dnskey_rdata(256, k.algorithm(), &k.dnskey_public()));
            ck.check_ref_signed(&c2, k, cls.as_deref());
        }
        if let Some((alg, s, p)) = keys.hk_signers.iter().find(|(a, _, _)| *a == c.sig.algorithm) {
            ck.check_hickory_signed(&c, *alg, s, p);
        }
        rep.replay_finish();
    }

    rep.must("tbs_equal", 1000);
    rep.must("ref_signed_accepted", 100);
    rep.must("hk_signed_ref_accepted", 100);
    rep.must("labels_exceed_rejected", 0);
    for t in SIGN_TYPES {
        rep.must(&format!("type/{t}"), 10);
    }
    for f in ["multi", "duplicate", "duplicate-ttl", "mixed-ttl", "rdata-names", "labels-reduced", "wildcard-owner", "near-duplicate"] {
        rep.must(&format!("feature/{f}"), 50);
    }
    for a in [8, 10, 13, 14, 15] {
        rep.must(&format!("ref_signed/alg-{a}"), 20);
        rep.must(&format!("hk_signed/alg-{a}"), 20);
    }

    let mut rng = ctx.rng("main");
    let mut ck = Checker { rep: &mut rep };

    // known-answer third-party signatures (OpenSSL; RSA 1024..4096 bits, SHA-1/256/512, ECDSA,
    // Ed25519): cheap, every run, both tiers
    kat::run(&ctx, &mut ck);

    // pinned cases: the probed examples (MX case order, TTL order, duplicate)
    if ctx.shard == 0 {
        let mx = |pref: u16, name: &str| {
            let mut r = pref.to_be_bytes().to_vec();
            vh::refwire::put_name(&mut r, &vh::refwire::labels_of(name));
            r
        };
        let sig = SigFields { type_covered: 15, algorithm: 15, labels: 1, original_ttl: 300, expiration: 2_000_000_000, inception: 1_000_000_000, key_tag: 1, signer: vec![b"example".to_vec()] };
        let base = Case { owner: vec![b"example".to_vec()], class: 1, rtype: 15, recs: vec![], sig: sig.clone(), features: vec!["multi", "rdata-names"] };
        let c1 = Case { recs: vec![(mx(10, "Foo.example."), 300), (mx(10, "bar.example."), 300)], ..base.clone() };
        let mut c2 = Case { rtype: 1, recs: vec![(vec![10, 0, 0, 9], 100), (vec![10, 0, 0, 1], 300)], features: vec!["multi", "mixed-ttl"], ..base.clone() };
        c2.sig.type_covered = 1;
        let mut c3 = Case { rtype: 1, recs: vec![(vec![10, 0, 0, 1], 300), (vec![10, 0, 0, 1], 300)], features: vec!["multi", "duplicate"], ..base.clone() };
        c3.sig.type_covered = 1;
        for c in [c1, c2, c3] {
            ck.check_tbs(&c);
        }
    }

    let n_tbs = ctx.budget(1_600_000, 40_000_000);
    let tags: Vec<u16> = keys.ref_keys.iter().map(|k| refsign::key_tag(&refsign::dnskey_rdata(256, k.algorithm(), &k.dnskey_public()))).collect();
    for i in 0..n_tbs {
        let ki = rng.usize_below(keys.ref_keys.len());
        let alg = keys.ref_keys[ki].algorithm();
        let (rtype, schema): (u16, Option<&'static [F]>) = if rng.chance(1, 40) {
            let (t, _, s) = *rng.pick(LISTED_UNIMPLEMENTED);
            (t, Some(s))
        } else if rng.chance(1, 40) {
            (rng.range(300, 60000) as u16, Some(&[][..]))
        } else {
            (*rng.pick(SIGN_TYPES), None)
        };
        let mut c = gen_case(&mut rng, alg, tags[ki], rtype, schema);
        if schema == Some(&[][..]) {
            // opaque unknown type: random bytes
            for r in c.recs.iter_mut() {
                r.0 = rng.bytes_between(0, 30);
            }
        }
        if rng.chance(1, 50) {
            // Labels above the owner's count: must be rejected
            c.sig.labels = (refsign::label_count(&c.owner) as u8).saturating_add(1 + rng.below(3) as u8);
        }
        if i < 4 {
            let cj = c.to_json();
            ck.rep.sample(|| cj);
        }
        let cls = ck.check_tbs(&c);
        // cross verification on a subset (crypto is the expensive part; RSA most of all)
        let crypto_every = match alg {
            8 | 10 => 200,
            _ => 20,
        };
        if i % crypto_every == 0 && (c.sig.labels as usize) <= refsign::label_count(&c.owner) {
            ck.check_ref_signed(&c, &keys.ref_keys[ki], cls.as_deref());
            let (a, s, p) = &keys.hk_signers[ki];
            ck.check_hickory_signed(&c, *a, s, p);
        }
    }

    std::process::exit(rep.finish().min(0));
}
