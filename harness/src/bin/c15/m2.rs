//! M2 — `CachingClient` end to end, fed with scripted upstream messages.
//!
//! Observation point: `hickory_resolver::caching_client::CachingClient::{new, lookup}` over a scripted
//! `DnsHandle` (`Scripted`) that answers every upstream query from a per-(name, type) list of replies
//! (wire messages written with `vh::refwire`, or handle errors Timeout / Io / Busy / NoConnections) and
//! logs which queries it saw. `CachingClient::with_cache` is `pub(crate)`, so the cache behind the client
//! cannot be shared with the harness and the client's clock is the real `Instant::now()`: M2 therefore
//! runs in *real time*. Many cases run interleaved on one thread; every lookup is bracketed by two
//! `Instant::now()` readings `[lo, hi]` taken by the harness around the call. All instants the client
//! uses for that lookup (cache `get`, `insert`) lie inside the bracket, so with an entry inserted during
//! the bracket `[ins_lo, ins_hi]` and a later lookup bracketed by `[lo, hi]`
//!     the age the cache saw is in  [lo − ins_hi, hi − ins_lo].
//! The oracle only ever uses the bound that makes the verdict certain (no slack constants needed, a
//! descheduled process only makes a probe later, never wrong): an entry is *certainly expired* when
//! `lo − ins_hi > L` and *certainly live* when `hi − ins_lo < L`.
//!
//! Model (independent, plain types; upstream messages are read back with `upstream::parse`):
//! a lookup for (q, T) walks the alias chain q = n0 → n1 → …; for every name the scripted handle was
//! asked about during this lookup the reply that was served is interpreted:
//!   * handle error, RCODE other than NOERROR/NXDOMAIN            → transient: nothing may be cached for
//!     any name of the walk that was asked in this lookup;
//!   * CNAMEs (in message order) from the current name, then records of type T at the end of the chain
//!                                                                 → positive; lifetime of the entry of every
//!     name n_j asked = min(TTLs of the CNAME records from n_j on, TTLs of the final records), clamped to
//!     [0, 86400] (`CachingClient::new` uses the default `TtlConfig`) — the statement's "smallest TTL among
//!     the entry's records of the queried type (or CNAME)" over the chain;
//!   * chain ends in a name that has to be asked next              → continue with that name;
//!   * no CNAME, no record of type T: NXDOMAIN / NODATA            → negative, negative TTL = min(SOA TTL,
//!     SOA.MINIMUM) of the authority-section SOA (RFC 2308 §5), lifetime = that clamped to [0, 86400];
//!     without SOA: no negative TTL (don't-care lifetime ≤ 86400, expected 0).
//! A name that was *not* asked during the lookup was served from the cache: its entry must exist
//! [m2_phantom: nothing stored / only a transient error before] and must not be certainly expired
//! [m2_expired]. What an outer name inherits from an inner entry served from the cache is that entry's
//! remaining lifetime (whole seconds, bracketed).
//!
//! Further clauses on the result of the lookup for (q, T):
//!   [m2_ttl]         fresh result without alias: every answer TTL = min(upstream TTL, 86400); with alias:
//!                    ≤ that (hickory lowers them to the chain minimum — not required by the statement);
//!                    result served from the cache: TTL ∈ [base − ⌊age_hi⌋, base − ⌊age_lo⌋] (floored at 0)
//!                    where base is what the inserting lookup reported — TTLs only count down;
//!   [m2_neg_ttl]     `NoRecords::negative_ttl` fresh = the model's negative TTL (None without SOA in the
//!                    authority section) or that value clamped to the negative bounds (the statement says
//!                    "clamped stored TTL"; hickory reports the upstream value and bounds only the lifetime —
//!                    either reading is accepted, found by seeded preserving change C15-n1), cached = aged
//!                    likewise;
//!   [m2_valid_until] `Lookup::valid_until()` ≤ insertion + L (+1 s for results served from the cache,
//!                    whose remaining TTL is rounded to whole seconds) — a Lookup must not claim validity
//!                    beyond the lifetime of the entry it came from;
//!   [m2_content]     a result served from the cache holds the same answer records as the inserting one.
//!
//! Don't-cares: a cache miss while the model says live (eviction; counted `m2/unexpected_refetch`); result
//! kind differing from the model's (counted `m2/result_kind_mismatch/..`, TTL clauses skipped, caching
//! clauses still apply); TC=1 is never sent (the name server pool never hands a truncated response up);
//! records of type T / CNAME outside the answer section are never generated (their effect on the
//! lifetime is covered by the histories); lifetime of a negative answer reached through an alias is only
//! bounded by its negative TTL (statement), not by the alias TTL.

use std::cmp::Reverse;
use std::collections::{BTreeMap, BinaryHeap, HashMap};
use std::pin::Pin;
use std::sync::{Arc, Mutex};
use std::time::{Duration, Instant};

use futures::stream::{self, Stream};
use hickory_net::runtime::TokioRuntimeProvider;
use hickory_net::xfer::DnsHandle;
use hickory_net::{DnsError, NetError};
use hickory_proto::op::{DnsRequest, DnsRequestOptions, DnsResponse, Query};
use hickory_proto::rr::RecordType;
use hickory_resolver::caching_client::CachingClient;
use hickory_resolver::lookup::Lookup;
use serde_json::{json, Value};
use vh::mon::{self, Ctx, Reporter};
use vh::prng::{fnv64, Rng};
use vh::refwire::{self as rw, Labels};

use crate::real::{err_kind, mk_transient};
use crate::upstream::{self as up, Msg, Rec, RC_NOERROR, RC_NXDOMAIN, T_A, T_AAAA, T_CNAME, T_MX, T_NS, T_SOA, T_TXT};

const NS: u64 = 1_000_000_000;
const MS: u64 = 1_000_000;
const MAX_TTL_S: u64 = 86_400;
/// no probe is planned later than this after the first lookup of a case
const HORIZON: u64 = 5_300 * MS;
const MAX_LOOKUPS: usize = 9;
const ROUND_CASES: usize = 1_500;

// ---------------------------------------------------------------------------------------------
// scripted upstream

#[derive(Clone, Debug)]
pub enum Reply {
    Wire(Vec<u8>),
    Err(&'static str),
}

const HANDLE_ERRORS: [&str; 4] = ["timeout", "io", "busy", "noconn"];

impl Reply {
    fn to_json(&self) -> Value {
        match self {
            Reply::Wire(w) => json!({"wire": up::hex(w), "decoded": up::describe(w)}),
            Reply::Err(k) => json!({"err": k}),
        }
    }
    fn from_json(v: &Value) -> Option<Reply> {
        if let Some(h) = v["wire"].as_str() {
            return Some(Reply::Wire(up::unhex(h)?));
        }
        let k = v["err"].as_str()?;
        Some(Reply::Err(HANDLE_ERRORS.iter().find(|x| **x == k).copied().unwrap_or("timeout")))
    }
}

#[derive(Clone, Debug)]
pub struct Route {
    pub name: Labels,
    pub replies: Vec<Reply>,
}

struct ScriptState {
    /// name (folded) → replies, next index (the last reply repeats)
    routes: HashMap<Labels, (Vec<Reply>, usize)>,
    qtype: u16,
    /// queries seen: (name, index of the reply served; usize::MAX = no route)
    log: Vec<(Labels, usize)>,
}

#[derive(Clone)]
pub struct Scripted {
    st: Arc<Mutex<ScriptState>>,
}

impl Scripted {
    fn new(routes: &[Route], qtype: u16) -> Scripted {
        let routes = routes.iter().map(|r| (rw::fold(&r.name), (r.replies.clone(), 0usize))).collect();
        Scripted { st: Arc::new(Mutex::new(ScriptState { routes, qtype, log: vec![] })) }
    }
    fn take_log(&self) -> Vec<(Labels, usize)> {
        std::mem::take(&mut self.st.lock().unwrap().log)
    }
}

impl DnsHandle for Scripted {
    type Response = Pin<Box<dyn Stream<Item = Result<DnsResponse, NetError>> + Send>>;
    type Runtime = TokioRuntimeProvider;

    fn send(&self, request: DnsRequest) -> Self::Response {
        let id = request.metadata.id;
        let r: Result<DnsResponse, NetError> = (|| {
            let q = request.queries.first().ok_or_else(|| NetError::from("scripted: request without question"))?;
            let name: Labels = rw::fold(&q.name.iter().map(|l| l.to_vec()).collect::<Vec<_>>());
            let mut st = self.st.lock().unwrap();
            if u16::from(q.query_type) != st.qtype {
                st.log.push((name, usize::MAX));
                return Err(NetError::from("scripted: unexpected query type"));
            }
            let Some((replies, next)) = st.routes.get_mut(&name) else {
                st.log.push((name, usize::MAX));
                return Err(NetError::from("scripted: no route"));
            };
            let idx = (*next).min(replies.len() - 1);
            *next += 1;
            let reply = replies[idx].clone();
            st.log.push((name, idx));
            match reply {
                Reply::Err(k) => Err(mk_transient(k)),
                Reply::Wire(mut w) => {
                    if w.len() >= 2 {
                        w[0..2].copy_from_slice(&id.to_be_bytes());
                    }
                    DnsResponse::from_buffer(w).map_err(NetError::from)
                }
            }
        })();
        Box::pin(stream::once(async move { r }))
    }
}

// ---------------------------------------------------------------------------------------------
// case

#[derive(Clone, Debug)]
pub struct Case {
    pub preserve: bool,
    pub qname: Labels,
    pub qtype: u16,
    pub routes: Vec<Route>,
    pub shape: String,
    /// replay: planned offsets (ms after the first lookup) of all lookups, instead of model-driven probing
    pub plan_ms: Option<Vec<u64>>,
}

impl Case {
    fn to_json(&self, lookups_at_ms: &[u64]) -> Value {
        json!({
            "mode": "m2",
            "preserve_intermediates": self.preserve,
            "qname": rw::show(&self.qname),
            "qtype": self.qtype,
            "shape": self.shape,
            "script": self.routes.iter().map(|r| json!({"name": rw::show(&r.name), "replies": r.replies.iter().map(|x| x.to_json()).collect::<Vec<_>>()})).collect::<Vec<_>>(),
            "lookups_at_ms": lookups_at_ms,
            "how": "CachingClient::new(32, scripted handle, preserve_intermediates); lookup(qname, qtype) at the given real-time offsets (ms after the first lookup); each upstream query for a name is answered with the next reply of that name's list (the last one repeats; ids are patched)",
        })
    }
    pub fn from_json(v: &Value) -> Option<Case> {
        let mut routes = vec![];
        for r in v["script"].as_array()? {
            routes.push(Route {
                name: rw::labels_of(r["name"].as_str()?),
                replies: r["replies"].as_array()?.iter().filter_map(Reply::from_json).collect(),
            });
            if routes.last()?.replies.is_empty() {
                return None;
            }
        }
        Some(Case {
            preserve: v["preserve_intermediates"].as_bool().unwrap_or(true),
            qname: rw::labels_of(v["qname"].as_str()?),
            qtype: v["qtype"].as_u64()? as u16,
            routes,
            shape: v["shape"].as_str().unwrap_or("replay").to_string(),
            plan_ms: Some(v["lookups_at_ms"].as_array()?.iter().filter_map(|x| x.as_u64()).collect()),
        })
    }
    fn hash(&self) -> u64 {
        let mut b = vec![self.preserve as u8];
        b.extend_from_slice(&self.qtype.to_le_bytes());
        for r in &self.routes {
            for x in &r.replies {
                match x {
                    // ids and tags differ from case to case: hash the TTL structure instead
                    Reply::Wire(w) => {
                        if let Ok(m) = up::parse(w) {
                            b.push(m.rcode);
                            for (i, s) in m.sections.iter().enumerate() {
                                for r in s {
                                    b.push(i as u8);
                                    b.extend_from_slice(&r.rtype.to_le_bytes());
                                    b.extend_from_slice(&r.ttl.to_le_bytes());
                                    b.extend_from_slice(&r.minimum.to_le_bytes());
                                }
                            }
                        }
                    }
                    Reply::Err(k) => b.extend_from_slice(k.as_bytes()),
                }
                b.push(0xff);
            }
        }
        fnv64(&b)
    }
}

// ---------------------------------------------------------------------------------------------
// generator

const SMALL: [u32; 8] = [0, 1, 1, 2, 2, 3, 3, 4];
const LARGE: [u32; 9] = [5, 30, 60, 300, 3600, 86_400, 86_401, 1_000_000, 0x7fff_ffff];
const QTYPES: [u16; 4] = [T_A, T_AAAA, T_TXT, T_MX];

struct TagSrc(u32);
impl TagSrc {
    fn next(&mut self) -> u32 {
        self.0 += 1;
        self.0
    }
}

/// TTLs for `n` chain elements: one position (chosen uniformly) holds a small value, the others are
/// at least as large (so the position of the minimum is known and uniformly spread).
fn chain_ttls(rng: &mut Rng, n: usize, long: bool) -> Vec<u32> {
    let m = if long { *rng.pick(&LARGE) } else { *rng.pick(&SMALL) };
    let at = rng.usize_below(n);
    (0..n)
        .map(|i| {
            if i == at {
                m
            } else {
                match rng.below(4) {
                    0 => m,
                    1 => m.saturating_add(rng.range(1, 3) as u32),
                    _ => (*rng.pick(&LARGE)).max(m),
                }
            }
        })
        .collect()
}

fn soa_pair(rng: &mut Rng, long: bool) -> (u32, u32) {
    let v = chain_ttls(rng, 2, long);
    if rng.bool() {
        (v[0], v[1])
    } else {
        (v[1], v[0])
    }
}

fn zone_of(name: &Labels) -> Labels {
    name[1.min(name.len())..].to_vec()
}

fn negative_reply(rng: &mut Rng, tags: &mut TagSrc, name: &Labels, qtype: u16, kind: &str, long: bool) -> Msg {
    let nx = kind.starts_with("nx");
    let mut m = Msg::response(rng.u16(), if nx { RC_NXDOMAIN } else { RC_NOERROR }, name, qtype);
    m.aa = rng.bool();
    let zone = zone_of(name);
    if kind.ends_with("_soa") {
        let (t, mi) = soa_pair(rng, long);
        m.sections[1].push(Rec::soa(&zone, t, mi, tags.next()));
        if rng.chance(1, 4) {
            m.sections[1].push(Rec::new(&zone, T_NS, *rng.pick(&LARGE), tags.next()));
        }
        if rng.chance(1, 6) {
            // decoy: an SOA in the additional section with different values
            let (t, mi) = soa_pair(rng, !long);
            m.sections[2].push(Rec::soa(&zone, t, mi, tags.next()));
        }
    } else if kind == "referral" {
        for _ in 0..rng.range(1, 2) {
            let t = tags.next();
            m.sections[1].push(Rec::new(&zone, T_NS, *rng.pick(&SMALL), t));
            if rng.bool() {
                m.sections[2].push(Rec::new(&up::tagged(t, "ns"), if qtype == T_A { T_AAAA } else { T_A }, *rng.pick(&SMALL), tags.next()));
            }
        }
    } else if rng.chance(1, 3) {
        // no SOA in the authority section; decoy SOA in the additional section
        let (t, mi) = soa_pair(rng, long);
        m.sections[2].push(Rec::soa(&zone, t, mi, tags.next()));
    }
    m
}

fn error_reply(rng: &mut Rng, name: &Labels, qtype: u16, kind: &str, tags: &mut TagSrc) -> Reply {
    let rcode = match kind {
        "servfail" => 2,
        "refused" => 5,
        "formerr" => 1,
        "notimp" => 4,
        "yxdomain" => 6,
        "notauth" => 9,
        _ => return Reply::Err(HANDLE_ERRORS.iter().find(|x| kind.ends_with(**x)).copied().unwrap_or("timeout")),
    };
    let mut m = Msg::response(rng.u16(), rcode, name, qtype);
    if rng.chance(1, 3) {
        // an error response that looks like a negative answer (SOA in the authority section)
        let long = rng.bool();
        let (t, mi) = soa_pair(rng, long);
        m.sections[1].push(Rec::soa(&zone_of(name), t, mi, tags.next()));
    }
    if rng.chance(1, 5) {
        m.sections[0].push(Rec::new(name, qtype, *rng.pick(&LARGE), tags.next()));
    }
    Reply::Wire(m.wire())
}

const ERROR_KINDS: [&str; 10] = ["servfail", "refused", "formerr", "notimp", "yxdomain", "notauth", "err_timeout", "err_io", "err_busy", "err_noconn"];

fn add_decoration(rng: &mut Rng, m: &mut Msg, name: &Labels, qtype: u16, tags: &mut TagSrc) {
    // authority NS / additional records of types other than T and CNAME, with TTLs that must not matter
    if rng.chance(1, 3) {
        let t = tags.next();
        m.sections[1].push(Rec::new(&zone_of(name), T_NS, *rng.pick(&SMALL), t));
        if rng.bool() {
            m.sections[2].push(Rec::new(&up::tagged(t, "ns"), if qtype == T_A { T_AAAA } else { T_A }, *rng.pick(&SMALL), tags.next()));
        }
    }
}

pub fn gen_case(rng: &mut Rng, index: u64) -> Case {
    let mut tags = TagSrc(0);
    let qname = rw::labels_of(&format!("q{index}.m2.test."));
    let qtype = *rng.pick(&QTYPES);
    let preserve = rng.bool();
    // most cases decide on a small TTL so that the deadline is reachable in real time
    let long = rng.chance(1, 6);
    let shape_id = rng.weighted(&[14, 14, 26, 8, 7, 7, 3, 3, 3, 15]);
    let mut routes: Vec<Route> = vec![];
    let shape: String;
    // number of alternative replies per route (used after expiry / error)
    let nrep = rng.urange(1, 3);
    let positive_chain = |rng: &mut Rng, tags: &mut TagSrc, routes: &mut Vec<Route>, hops: &[usize], end: &str, long: bool| {
        // hops[i] = number of CNAME records in the message answering the i-th name asked; the last message
        // also holds the final records (end = "final"), a negative answer (end = nx_soa …) or an error
        let n_final = if end == "final" { rng.urange(1, 3) } else { 0 };
        let total: usize = hops.iter().sum::<usize>() + if end == "final" { 1 } else { 0 };
        let cname_tags: Vec<u32> = (0..hops.iter().sum::<usize>()).map(|_| tags.next()).collect();
        let final_tags: Vec<u32> = (0..n_final).map(|_| tags.next()).collect();
        for rep in 0..nrep {
            let ttls = chain_ttls(rng, total.max(1), long && rep == 0);
            let mut asked = qname.clone();
            let mut ci = 0;
            for (h, &n) in hops.iter().enumerate() {
                let last = h + 1 == hops.len();
                let mut m = Msg::response(rng.u16(), RC_NOERROR, &asked, qtype);
                m.aa = rng.bool();
                let mut owner = asked.clone();
                for _ in 0..n {
                    m.sections[0].push(Rec::new(&owner, T_CNAME, ttls[ci], cname_tags[ci]));
                    owner = up::tagged(cname_tags[ci], "cn");
                    ci += 1;
                }
                let mut reply = None;
                if last {
                    match end {
                        "final" => {
                            let ft = ttls[total - 1];
                            for (i, t) in final_tags.iter().enumerate() {
                                let ttl = if i == 0 || rng.bool() { ft } else { ft.saturating_add(rng.range(1, 100) as u32) };
                                m.sections[0].push(Rec::new(&owner, qtype, ttl, *t));
                            }
                            add_decoration(rng, &mut m, &owner, qtype, tags);
                        }
                        e if n == 0 && ERROR_KINDS.contains(&e) => reply = Some(error_reply(rng, &asked, qtype, e, tags)),
                        e if n == 0 => {
                            m = negative_reply(rng, tags, &asked, qtype, e, long && rep == 0);
                        }
                        _ => {}
                    }
                }
                let reply = reply.unwrap_or_else(|| Reply::Wire(m.wire()));
                let fa = rw::fold(&asked);
                match routes.iter_mut().find(|r| r.name == fa) {
                    Some(r) => r.replies.push(reply),
                    None => routes.push(Route { name: fa, replies: vec![reply] }),
                }
                asked = owner;
            }
            // hickory (preserve_intermediates, second or later hop) asks for the end of an alias chain again
            // even when the final records came in the same message: that name has its own replies
            if end == "final" && *hops.last().unwrap() > 0 {
                let mut m = Msg::response(rng.u16(), RC_NOERROR, &asked, qtype);
                let ft = chain_ttls(rng, 1, long && rep == 0)[0];
                for i in 0..rng.urange(1, 2) {
                    let ttl = if i == 0 { ft } else { ft.saturating_add(rng.range(0, 50) as u32) };
                    m.sections[0].push(Rec::new(&asked, qtype, ttl, tags.next()));
                }
                let fa = rw::fold(&asked);
                let reply = Reply::Wire(m.wire());
                match routes.iter_mut().find(|r| r.name == fa) {
                    Some(r) => r.replies.push(reply),
                    None => routes.push(Route { name: fa, replies: vec![reply] }),
                }
            }
        }
    };
    match shape_id {
        0 => {
            shape = "direct".into();
            positive_chain(rng, &mut tags, &mut routes, &[0], "final", long);
        }
        1 => {
            let k = rng.urange(1, 2);
            shape = format!("cname_inmsg_{k}");
            positive_chain(rng, &mut tags, &mut routes, &[k], "final", long);
        }
        2 => {
            // alias chain resolved over several upstream queries
            let hops: Vec<usize> = match rng.below(5) {
                0 => vec![1, 0],
                1 => vec![1, 1, 0],
                2 => vec![2, 0],
                3 => vec![1, 1],
                _ => vec![1, 1, 1, 0],
            };
            shape = format!("cname_multi_{}", hops.iter().map(|h| h.to_string()).collect::<Vec<_>>().join("_"));
            positive_chain(rng, &mut tags, &mut routes, &hops, "final", long);
        }
        3 => {
            let end = *rng.pick(&["nx_soa", "nodata_soa", "nx_nosoa"]);
            shape = format!("cname_multi_then_{end}");
            positive_chain(rng, &mut tags, &mut routes, &[1, 0], end, long);
        }
        4 => {
            shape = "nxdomain_soa".into();
            positive_chain(rng, &mut tags, &mut routes, &[0], "nx_soa", long);
        }
        5 => {
            shape = "nodata_soa".into();
            positive_chain(rng, &mut tags, &mut routes, &[0], "nodata_soa", long);
        }
        6 => {
            shape = "nxdomain_nosoa".into();
            positive_chain(rng, &mut tags, &mut routes, &[0], "nx_nosoa", long);
        }
        7 => {
            shape = "nodata_nosoa".into();
            positive_chain(rng, &mut tags, &mut routes, &[0], "nodata_nosoa", long);
        }
        8 => {
            shape = "referral".into();
            positive_chain(rng, &mut tags, &mut routes, &[0], "referral", long);
        }
        _ => {
            let e = *rng.pick(&ERROR_KINDS);
            if rng.chance(1, 4) {
                shape = format!("cname_multi_then_{e}");
                positive_chain(rng, &mut tags, &mut routes, &[1, 0], e, long);
            } else {
                shape = e.to_string();
                positive_chain(rng, &mut tags, &mut routes, &[0], e, long);
            }
        }
    }
    // mix: after an error the next reply is often a cacheable one and vice versa
    if rng.chance(1, 3) {
        let last = routes.len() - 1;
        let name = routes[last].name.clone();
        let extra = if shape_id == 9 {
            let mut m = Msg::response(rng.u16(), RC_NOERROR, &name, qtype);
            let ft = *rng.pick(&SMALL);
            m.sections[0].push(Rec::new(&name, qtype, ft, tags.next()));
            Reply::Wire(m.wire())
        } else {
            let e = *rng.pick(&ERROR_KINDS);
            error_reply(rng, &name, qtype, e, &mut tags)
        };
        let at = rng.urange(1, routes[last].replies.len());
        routes[last].replies.insert(at, extra);
    }
    Case { preserve, qname, qtype, routes, shape, plan_ms: None }
}

// ---------------------------------------------------------------------------------------------
// model

#[derive(Clone, Debug)]
struct Entry {
    ins_lo: u64,
    ins_hi: u64,
    /// must not be served once age > hard_l seconds
    hard_l: u64,
    /// expected to be served while age < soft_l seconds
    soft_l: u64,
    negative: bool,
    /// negative TTL at insertion (range when inherited from an aged inner entry); None = no negative TTL
    neg_base: Option<(u32, u32)>,
    /// answers reported by the inserting lookup (type, tag, ttl) — only known for the query name
    base: Option<Vec<(u16, u32, u32)>>,
    /// which element of the chain decides the lifetime (signature component)
    decided_by: &'static str,
    soft_probed: bool,
    hard_probed: bool,
}

#[derive(Clone, Debug)]
enum State {
    /// nothing may be served for this name (why)
    Nothing(&'static str),
    Live(Entry),
    /// the model could not follow (don't-care)
    Unknown,
}

#[derive(Clone, Debug)]
enum Walk {
    Pos { hard: u64, soft: u64, decided_by: &'static str, alias: bool },
    Neg { hard: u64, soft: u64, nt: Option<(u32, u32)> },
    Transient(&'static str),
    Unknown,
}

enum Interp {
    Transient(&'static str),
    Final { cname_min: Option<u32>, final_min: u32, end: Labels },
    Continue { cname_min: u32, next: Labels },
    Negative { nt: Option<u32> },
}

fn interpret(reply: &Reply, name: &Labels, qtype: u16) -> Interp {
    let w = match reply {
        Reply::Err(k) => return Interp::Transient(k),
        Reply::Wire(w) => w,
    };
    let Ok(m) = up::parse(w) else { return Interp::Transient("undecodable") };
    match m.rcode {
        RC_NOERROR | RC_NXDOMAIN => {}
        2 => return Interp::Transient("servfail"),
        5 => return Interp::Transient("refused"),
        1 => return Interp::Transient("formerr"),
        4 => return Interp::Transient("notimp"),
        _ => return Interp::Transient("other_error_rcode"),
    }
    let mut cur = rw::fold(name);
    let mut cmin: Option<u32> = None;
    for r in &m.sections[0] {
        if r.rtype == T_CNAME && r.owner == cur {
            cmin = Some(cmin.map_or(r.ttl, |c| c.min(r.ttl)));
            if let Some(t) = &r.target {
                cur = t.clone();
            }
        }
    }
    let fmin = m.sections[0].iter().filter(|r| r.rtype == qtype && r.owner == cur).map(|r| r.ttl).min();
    if let Some(f) = fmin {
        return Interp::Final { cname_min: cmin, final_min: f, end: cur };
    }
    if let Some(c) = cmin {
        return Interp::Continue { cname_min: c, next: cur };
    }
    let nt = m.sections[1].iter().find(|r| r.rtype == T_SOA).map(up::soa_negative_ttl);
    Interp::Negative { nt }
}

pub struct Viol {
    pub rule: &'static str,
    pub sig: String,
    pub expected: Value,
    pub observed: Value,
}

/// What one lookup looked like from outside.
#[derive(Clone, Debug)]
pub enum Res {
    Ok { answers: Vec<(u16, u32, u32)>, valid_until_off: i128 },
    NoRecords { negative_ttl: Option<u32>, nx: bool },
    Err(String),
    Panic(String),
}

impl Res {
    fn to_json(&self) -> Value {
        match self {
            Res::Ok { answers, valid_until_off } => json!({"Ok": {"answers[type,tag,ttl]": answers, "valid_until_ms_after_first_lookup": (*valid_until_off / MS as i128) as i64}}),
            Res::NoRecords { negative_ttl, nx } => json!({"NoRecordsFound": {"negative_ttl": negative_ttl, "nxdomain": nx}}),
            Res::Err(e) => json!({"Err": e}),
            Res::Panic(p) => json!({"panic": p}),
        }
    }
}

struct Model {
    qtype: u16,
    states: HashMap<Labels, State>,
}

#[derive(Default)]
struct LookupStats {
    counters: Vec<String>,
    viols: Vec<Viol>,
}

fn clamp_l(x: u64) -> u64 {
    x.min(MAX_TTL_S)
}

impl Model {
    /// age bounds (ns) of entry `e` as seen by a lookup bracketed by [lo, hi]
    fn age(e: &Entry, lo: u64, hi: u64) -> (u64, u64) {
        (lo.saturating_sub(e.ins_hi), hi.saturating_sub(e.ins_lo))
    }

    #[allow(clippy::too_many_arguments)]
    fn walk(&mut self, case: &Case, name: &Labels, log: &[(Labels, usize)], lo: u64, hi: u64, depth: usize, out: &mut LookupStats) -> Walk {
        let asked = log.iter().find(|(n, _)| n == name).map(|(_, i)| *i);
        let Some(idx) = asked else {
            // served from the cache
            return match self.states.get_mut(name) {
                None => {
                    out.viols.push(Viol { rule: "m2_phantom", sig: format!("never_asked|depth={depth}"), expected: json!("an upstream query (nothing was ever fetched for this name)"), observed: json!({"name": rw::show(name), "upstream_queries": 0}) });
                    Walk::Unknown
                }
                Some(State::Unknown) => Walk::Unknown,
                Some(State::Nothing(why)) => {
                    out.viols.push(Viol {
                        rule: "m2_phantom",
                        sig: format!("after_{why}|{}", if depth == 0 { "query_name" } else { "alias_target" }),
                        expected: json!({"upstream_query_for": rw::show(name), "because": format!("the previous fetch ended in '{why}', which must not be cached")}),
                        observed: json!("answered without asking upstream"),
                    });
                    Walk::Unknown
                }
                Some(State::Live(e)) => {
                    let (alo, ahi) = Self::age(e, lo, hi);
                    out.counters.push(if depth == 0 { "m2/served_from_cache".into() } else { "m2/alias_target_served_from_cache".into() });
                    if alo > e.hard_l * NS {
                        out.viols.push(Viol {
                            rule: "m2_expired",
                            sig: format!("{}|decided_by={}|preserve_intermediates={}", if e.negative { "neg" } else { "pos" }, e.decided_by, case.preserve),
                            expected: json!({"upstream_query_for": rw::show(name), "entry_inserted_ms": [e.ins_lo / MS, e.ins_hi / MS], "L_s": e.hard_l, "age_at_least_ms": alo / MS}),
                            observed: json!({"upstream_queries_for_this_name": 0, "what": "answered from the cache without asking upstream"}),
                        });
                    } else if ahi < e.hard_l * NS {
                        out.counters.push("m2/served_while_certainly_live".into());
                    }
                    let (slo, shi) = (alo / NS, ahi / NS);
                    if e.negative {
                        let nt = e.neg_base.map(|(a, b)| (a.saturating_sub(shi.min(u32::MAX as u64) as u32), b.saturating_sub(slo.min(u32::MAX as u64) as u32)));
                        Walk::Neg { hard: e.hard_l.saturating_sub(slo), soft: e.soft_l.saturating_sub(shi), nt }
                    } else {
                        Walk::Pos { hard: e.hard_l.saturating_sub(slo), soft: e.soft_l.saturating_sub(shi), decided_by: e.decided_by, alias: true }
                    }
                }
            };
        };
        // asked upstream: a cache miss for this name
        if let Some(State::Live(e)) = self.states.get(name) {
            let (alo, ahi) = Self::age(e, lo, hi);
            if ahi < e.soft_l * NS {
                out.counters.push("m2/unexpected_refetch".into());
                if std::env::var_os("C15_DEBUG").is_some() {
                    eprintln!("M2 UNEXPECTED_REFETCH shape={} preserve={} name={} depth={depth} entry={e:?} lo={} hi={}", case.shape, case.preserve, rw::show(name), lo / MS, hi / MS);
                }
            } else if alo > e.hard_l * NS {
                // certainly past the deadline, and the client did ask upstream again
                out.counters.push(if e.negative { "m2/expired_negative_refetched".into() } else { "m2/expired_positive_refetched".into() });
                out.counters.push(format!("m2/expired_refetched/decided_by={}", e.decided_by));
                if alo < e.hard_l * NS + 400 * MS {
                    out.counters.push("m2/refetched_within_400ms_after_deadline".into());
                }
            } else {
                out.counters.push("m2/refetch_at_deadline_uncertain".into());
            }
        } else if let Some(State::Nothing(_)) = self.states.get(name) {
            out.counters.push("m2/upstream_queries_after_error".into());
        }
        let reply = case.routes.iter().find(|r| &r.name == name).and_then(|r| r.replies.get(idx));
        let Some(reply) = reply else {
            self.states.insert(name.clone(), State::Nothing("no_route"));
            return Walk::Transient("no_route");
        };
        let mk = |hard: u64, soft: u64, negative: bool, nt: Option<(u32, u32)>, decided_by: &'static str| Entry {
            ins_lo: lo,
            ins_hi: hi,
            hard_l: hard,
            soft_l: soft,
            negative,
            neg_base: nt,
            base: None,
            decided_by,
            soft_probed: false,
            hard_probed: false,
        };
        let interp = match interpret(reply, name, self.qtype) {
            // the end of the alias chain was asked about as well in this lookup although the final records came
            // in the same message (a legitimate way to resolve): what counts is the answer to that query
            Interp::Final { cname_min: Some(c), end, .. } if end != *name && log.iter().any(|(n, _)| *n == end) => Interp::Continue { cname_min: c, next: end },
            x => x,
        };
        match interp {
            Interp::Transient(k) => {
                self.states.insert(name.clone(), State::Nothing(k));
                Walk::Transient(k)
            }
            Interp::Final { cname_min, final_min, .. } => {
                let (l, by) = match cname_min {
                    Some(c) if c < final_min => (c, "cname_same_message"),
                    Some(_) => (final_min, "final_rrset"),
                    None => (final_min, "final_rrset"),
                };
                let l = clamp_l(l as u64);
                self.states.insert(name.clone(), State::Live(mk(l, l, false, None, by)));
                Walk::Pos { hard: l, soft: l, decided_by: by, alias: cname_min.is_some() }
            }
            Interp::Negative { nt } => {
                let (hard, soft) = match nt {
                    Some(t) => (clamp_l(t as u64), clamp_l(t as u64)),
                    None => (MAX_TTL_S, 0),
                };
                // the statement speaks of "the clamped stored TTL": whether `NoRecords::negative_ttl` reports the
                // upstream value (what hickory does) or the clamped one is left open — both, aged, are accepted
                let ntr = nt.map(|t| ((clamp_l(t as u64).min(t as u64)) as u32, t));
                self.states.insert(name.clone(), State::Live(mk(hard, soft, true, ntr, if nt.is_some() { "soa" } else { "no_soa" })));
                Walk::Neg { hard, soft, nt: ntr }
            }
            Interp::Continue { cname_min, next } => {
                if depth >= 5 {
                    self.states.insert(name.clone(), State::Unknown);
                    return Walk::Unknown;
                }
                let inner = self.walk(case, &next, log, lo, hi, depth + 1, out);
                match inner {
                    Walk::Pos { hard, soft, decided_by, .. } => {
                        let c = clamp_l(cname_min as u64);
                        let (h, by) = if c < hard { (c, "cname_earlier_message") } else { (hard, decided_by) };
                        let s = c.min(soft);
                        self.states.insert(name.clone(), State::Live(mk(h, s, false, None, by)));
                        Walk::Pos { hard: h, soft: s, decided_by: by, alias: true }
                    }
                    Walk::Neg { hard, soft, nt } => {
                        // statement: a negative answer is bounded by its negative TTL (the alias TTL is not required to bound it)
                        self.states.insert(name.clone(), State::Live(mk(hard, soft, true, nt, "soa_behind_alias")));
                        Walk::Neg { hard, soft, nt }
                    }
                    Walk::Transient(k) => {
                        self.states.insert(name.clone(), State::Nothing(k));
                        Walk::Transient(k)
                    }
                    Walk::Unknown => {
                        self.states.insert(name.clone(), State::Unknown);
                        Walk::Unknown
                    }
                }
            }
        }
    }
}

fn shape_class(shape: &str) -> &str {
    if shape.starts_with("cname_multi_then") {
        "cname_multi_then_end"
    } else if shape.starts_with("cname_multi") {
        "cname_multi"
    } else if shape.starts_with("cname_inmsg") {
        "cname_inmsg"
    } else {
        shape
    }
}

// ---------------------------------------------------------------------------------------------
// execution of one case

struct Running {
    case: Case,
    client: CachingClient<Scripted>,
    script: Scripted,
    model: Model,
    start: Instant,
    done_ms: Vec<u64>,
    /// upstream TTL per record tag and reply (max over the replies that contain the tag)
    tag_ttl_max: HashMap<u32, u32>,
    aging_probe_done: bool,
}

fn observe_lookup(r: Result<Result<Lookup, NetError>, mon::PanicRecord>, start: Instant) -> Res {
    match r {
        Err(p) => Res::Panic(format!("{}|{}", p.site(), p.message.split_whitespace().take(6).collect::<Vec<_>>().join("_"))),
        Ok(Ok(l)) => {
            let answers = l.answers().iter().map(|r| (u16::from(r.record_type()), crate::real::tag_of_record(r), r.ttl)).collect();
            let vu = l.valid_until();
            let off = if vu >= start { vu.duration_since(start).as_nanos() as i128 } else { -(start.duration_since(vu).as_nanos() as i128) };
            Res::Ok { answers, valid_until_off: off }
        }
        Ok(Err(NetError::Dns(DnsError::NoRecordsFound(nr)))) => Res::NoRecords { negative_ttl: nr.negative_ttl, nx: nr.response_code == hickory_proto::op::ResponseCode::NXDomain },
        Ok(Err(e)) => Res::Err(err_kind(&e)),
    }
}

impl Running {
    fn new(case: Case) -> Running {
        let script = Scripted::new(&case.routes, case.qtype);
        let client = CachingClient::new(32, script.clone(), case.preserve);
        let mut tag_ttl_max = HashMap::new();
        for r in &case.routes {
            for x in &r.replies {
                if let Reply::Wire(w) = x {
                    if let Ok(m) = up::parse(w) {
                        for rec in m.all() {
                            let e = tag_ttl_max.entry(rec.tag).or_insert(0u32);
                            *e = (*e).max(rec.ttl);
                        }
                    }
                }
            }
        }
        let model = Model { qtype: case.qtype, states: HashMap::new() };
        Running { case, client, script, model, start: Instant::now(), done_ms: vec![], tag_ttl_max, aging_probe_done: false }
    }

    /// One lookup, judged. Returns the counters / violations of this lookup.
    fn lookup(&mut self) -> (LookupStats, Res) {
        let name = hickory_proto::rr::Name::from_ascii(rw::show(&self.case.qname)).expect("qname");
        let q = Query::new(name, RecordType::from(self.case.qtype));
        if self.done_ms.is_empty() {
            self.start = Instant::now();
        }
        let t_lo = Instant::now();
        let client = self.client.clone();
        let r = mon::catch(move || futures::executor::block_on(client.lookup(q, DnsRequestOptions::default())));
        let t_hi = Instant::now();
        let lo = t_lo.duration_since(self.start).as_nanos() as u64;
        let hi = t_hi.duration_since(self.start).as_nanos() as u64;
        self.done_ms.push(lo / MS);
        let log = self.script.take_log();
        let res = observe_lookup(r, self.start);
        let mut out = LookupStats::default();
        let n = self.done_ms.len();
        out.counters.push("m2/lookups".into());
        out.counters.push(format!("m2/upstream_queries_per_lookup/{}", log.len().min(5)));
        let qn = rw::fold(&self.case.qname);
        let fresh = log.iter().any(|(n, _)| *n == qn);
        let prev = self.model.states.get(&qn).cloned();
        let w = self.model.walk(&self.case, &qn, &log, lo, hi, 0, &mut out);
        if n == 2 {
            out.counters.push(if fresh { "m2/second_lookup_asked_upstream".into() } else { "m2/second_lookup_served_from_cache".into() });
        }
        if let Res::Panic(p) = &res {
            out.viols.push(Viol { rule: "panic", sig: format!("m2|{p}"), expected: json!("no panic"), observed: res.to_json() });
            return (out, res);
        }
        // ---- result clauses
        let kind_obs = match &res {
            Res::Ok { .. } => "ok",
            Res::NoRecords { .. } => "no_records",
            _ => "error",
        };
        let kind_exp = match &w {
            Walk::Pos { .. } => "ok",
            Walk::Neg { .. } => "no_records",
            Walk::Transient(_) => "error",
            Walk::Unknown => "unknown",
        };
        if kind_exp == "unknown" {
            out.counters.push("m2/model_unknown".into());
            return (out, res);
        }
        if kind_exp != kind_obs {
            out.counters.push(format!("m2/result_kind_mismatch/{kind_exp}_got_{kind_obs}"));
            if std::env::var_os("C15_DEBUG").is_some() {
                eprintln!("M2 KIND_MISMATCH shape={} preserve={} exp={kind_exp} res={:?} log={:?} case={}", self.case.shape, self.case.preserve, res, log.iter().map(|(n, i)| (rw::show(n), *i)).collect::<Vec<_>>(), self.case.to_json(&self.done_ms));
            }
            // the model's entry stays (the caching clauses apply to later lookups) but nothing is known about the reported values
            return (out, res);
        }
        out.counters.push(format!("m2/result/{}/{}", if fresh { "fresh" } else { "cached" }, kind_obs));
        match (&w, &res) {
            (Walk::Pos { hard, alias, decided_by, .. }, Res::Ok { answers, valid_until_off }) => {
                if fresh {
                    for (t, tag, ttl) in answers {
                        let Some(upttl) = self.tag_ttl_max.get(tag) else {
                            out.viols.push(Viol { rule: "m2_content", sig: "fresh|unknown_record".into(), expected: json!("only records that upstream sent"), observed: res.to_json() });
                            break;
                        };
                        let exact = self.exact_ttl(&log, *tag);
                        let bound = (*upttl as u64).min(MAX_TTL_S) as u32;
                        let bad = match (alias, exact) {
                            (false, Some(x)) => *ttl != (x as u64).min(MAX_TTL_S) as u32,
                            _ => *ttl > bound,
                        };
                        if bad {
                            out.viols.push(Viol {
                                rule: "m2_ttl",
                                sig: format!("fresh|{}|{}|{}", if *alias { "alias" } else { "direct" }, if *t == T_CNAME { "cname" } else { "final" }, if *ttl > bound { "high" } else { "low" }),
                                expected: json!({"record_tag": tag, "upstream_ttl": exact, "at_most": bound}),
                                observed: json!({"ttl": ttl, "result": res.to_json()}),
                            });
                            break;
                        }
                    }
                    if *valid_until_off > hi as i128 + (*hard * NS) as i128 {
                        out.viols.push(Viol {
                            rule: "m2_valid_until",
                            sig: format!("decided_by={}|preserve_intermediates={}", decided_by, self.case.preserve),
                            expected: json!({"valid_until_at_most_ms": (hi + hard * NS) / MS, "L_s": hard}),
                            observed: res.to_json(),
                        });
                    }
                    if let Some(State::Live(e)) = self.model.states.get_mut(&qn) {
                        e.base = Some(answers.clone());
                    }
                } else if let Some(State::Live(e)) = &prev {
                    let (alo, ahi) = Model::age(e, lo, hi);
                    let (slo, shi) = ((alo / NS).min(u32::MAX as u64) as u32, (ahi / NS).min(u32::MAX as u64) as u32);
                    if let Some(base) = &e.base {
                        let same = base.len() == answers.len() && base.iter().zip(answers).all(|(a, b)| a.0 == b.0 && a.1 == b.1);
                        if !same {
                            out.viols.push(Viol { rule: "m2_content", sig: "cached|other_records".into(), expected: json!({"answers_of_inserting_lookup": base}), observed: res.to_json() });
                        } else {
                            for (b, a) in base.iter().zip(answers) {
                                let (min, max) = (b.2.saturating_sub(shi), b.2.saturating_sub(slo));
                                if a.2 < min || a.2 > max {
                                    out.viols.push(Viol {
                                        rule: "m2_ttl",
                                        sig: format!("cached|{}", if a.2 > max { "high" } else { "low" }),
                                        expected: json!({"ttl_between": [min, max], "reported_at_insertion": b.2, "age_s_between": [slo, shi]}),
                                        observed: json!({"ttl": a.2, "result": res.to_json()}),
                                    });
                                    break;
                                }
                            }
                            if shi >= 1 && slo >= 1 {
                                out.counters.push("m2/cached_result_aged_ge_1s".into());
                            }
                        }
                    }
                    if *valid_until_off > (e.ins_hi + e.hard_l * NS + NS) as i128 {
                        out.viols.push(Viol {
                            rule: "m2_valid_until",
                            sig: format!("decided_by={}|preserve_intermediates={}", e.decided_by, self.case.preserve),
                            expected: json!({"valid_until_at_most_ms": (e.ins_hi + e.hard_l * NS + NS) / MS, "L_s": e.hard_l}),
                            observed: res.to_json(),
                        });
                    }
                }
            }
            (Walk::Neg { nt, .. }, Res::NoRecords { negative_ttl, .. }) => {
                let ok = match (nt, negative_ttl) {
                    (None, None) => true,
                    (Some((a, b)), Some(x)) => a <= x && x <= b,
                    _ => false,
                };
                if !ok {
                    out.viols.push(Viol {
                        rule: "m2_neg_ttl",
                        sig: format!(
                            "{}|{}",
                            if fresh { "fresh" } else { "cached" },
                            match (nt, negative_ttl) {
                                (None, Some(_)) => "reported_without_authority_soa",
                                (Some(_), None) => "missing",
                                (Some((_, b)), Some(x)) if x > b => "high",
                                _ => "low",
                            }
                        ),
                        expected: json!({"negative_ttl_between": nt}),
                        observed: res.to_json(),
                    });
                }
            }
            _ => {}
        }
        (out, res)
    }

    /// upstream TTL of the record with `tag` in a reply served during this lookup
    fn exact_ttl(&self, log: &[(Labels, usize)], tag: u32) -> Option<u32> {
        for (name, idx) in log {
            let r = self.case.routes.iter().find(|r| &r.name == name)?;
            if let Some(Reply::Wire(w)) = r.replies.get(*idx) {
                if let Ok(m) = up::parse(w) {
                    if let Some(rec) = m.all().find(|r| r.tag == tag) {
                        return Some(rec.ttl);
                    }
                }
            }
        }
        None
    }

    /// When to look again (ns after the first lookup), from the model's view of the entries.
    fn next_probe(&mut self, now: u64) -> Option<u64> {
        if self.done_ms.len() >= MAX_LOOKUPS {
            return None;
        }
        if let Some(plan) = &self.case.plan_ms {
            return plan.get(self.done_ms.len()).map(|ms| ms * MS);
        }
        if self.done_ms.len() == 1 {
            return Some(now + 2 * MS);
        }
        let mut best: Option<(u64, Labels, bool)> = None;
        for (name, st) in &self.model.states {
            let State::Live(e) = st else { continue };
            let mut cands = vec![];
            if !e.soft_probed && e.soft_l >= 2 {
                let t = (e.ins_lo + e.soft_l * NS).saturating_sub(450 * MS);
                if t > now + 50 * MS {
                    cands.push((t, true));
                }
            }
            if !e.hard_probed && e.hard_l <= 6 {
                cands.push(((e.ins_hi + e.hard_l * NS + 130 * MS).max(now + MS), false));
            }
            for (t, soft) in cands {
                if t <= HORIZON && best.as_ref().map_or(true, |b| t < b.0) {
                    best = Some((t, name.clone(), soft));
                }
            }
        }
        if let Some((t, name, soft)) = best {
            if let Some(State::Live(e)) = self.model.states.get_mut(&name) {
                if soft {
                    e.soft_probed = true;
                } else {
                    e.hard_probed = true;
                }
            }
            return Some(t);
        }
        // long-lived entries: one more look after a little more than two seconds (TTLs must have counted down)
        if !self.aging_probe_done && now < 2_000 * MS && self.model.states.values().any(|s| matches!(s, State::Live(e) if e.soft_l > 6)) {
            self.aging_probe_done = true;
            return Some(2_150 * MS);
        }
        // after a transient error: ask once more a little later
        if self.done_ms.len() == 2 && self.model.states.values().any(|s| matches!(s, State::Nothing(_))) {
            return Some(now + 300 * MS);
        }
        None
    }
}

// ---------------------------------------------------------------------------------------------
// rounds

#[derive(Default)]
pub struct Out {
    pub counters: BTreeMap<String, u64>,
    pub viols: Vec<(String, String, Value, Value, Value)>,
    pub evals: u64,
    pub hashes: Vec<u64>,
    pub samples: Vec<Value>,
    pub max_bracket_us: u64,
}

impl Out {
    fn count(&mut self, k: &str) {
        *self.counters.entry(k.to_string()).or_insert(0) += 1;
    }
}

fn absorb_lookup(out: &mut Out, run: &Running, stats: LookupStats, res: &Res) {
    out.evals += 1;
    for c in &stats.counters {
        out.count(c);
    }
    for v in stats.viols {
        let key = format!("{}|{}", v.rule, v.sig);
        let n = out.counters.entry(format!("\u{0}seen/{key}")).or_insert(0);
        *n += 1;
        if *n <= 3 {
            let mut obs = v.observed;
            if let Value::Object(m) = &mut obs {
                m.insert("lookup_result".into(), res.to_json());
            }
            out.viols.push((v.rule.to_string(), v.sig, run.case.to_json(&run.done_ms), v.expected, obs));
        } else {
            out.viols.push((v.rule.to_string(), v.sig, json!({"omitted": "witness kept only for the first occurrences"}), Value::Null, Value::Null));
        }
    }
}

/// Run `cases` interleaved in real time on the calling thread.
pub fn run_round(cases: Vec<Case>, out: &mut Out) {
    let n = cases.len();
    let mut runs: Vec<Running> = cases.into_iter().map(Running::new).collect();
    let t0 = Instant::now();
    // staggered starts: 0.25 ms apart
    let mut heap: BinaryHeap<Reverse<(Instant, usize)>> = BinaryHeap::new();
    for i in 0..n {
        heap.push(Reverse((t0 + Duration::from_micros(250 * i as u64), i)));
    }
    while let Some(Reverse((at, i))) = heap.pop() {
        let now = Instant::now();
        if at > now {
            std::thread::sleep(at - now);
        }
        let run = &mut runs[i];
        let first = run.done_ms.is_empty();
        let (stats, res) = run.lookup();
        if first {
            out.count("m2/cases");
            out.count(&format!("m2/shape/{}", shape_class(&run.case.shape)));
            out.count(&format!("m2/class/{}", run.case.shape));
            out.count(if run.case.preserve { "m2/preserve_intermediates/true" } else { "m2/preserve_intermediates/false" });
            out.hashes.push(run.case.hash());
            if out.samples.len() < 3 {
                out.samples.push(json!({"m2": run.case.to_json(&[]), "first_result": res.to_json()}));
            }
        }
        absorb_lookup(out, run, stats, &res);
        let now_off = Instant::now().duration_since(run.start).as_nanos() as u64;
        if let Some(next) = run.next_probe(now_off) {
            heap.push(Reverse((run.start + Duration::from_nanos(next), i)));
        }
    }
    for run in &runs {
        out.count(&format!("m2/lookups_per_case/{}", run.done_ms.len().min(MAX_LOOKUPS)));
    }
}

/// The M2 workload of this shard (own thread; results are merged into the reporter by `merge`).
pub fn run(ctx: &Ctx) -> Out {
    let mut out = Out::default();
    let mut rng = ctx.rng("m2");
    let total = ctx.budget(4_000, 400_000) as usize;
    let mut done = 0usize;
    let mut index = ctx.shard * 10_000_000;
    while done < total {
        let n = (total - done).min(ROUND_CASES);
        let cases: Vec<Case> = (0..n)
            .map(|_| {
                index += 1;
                gen_case(&mut rng, index)
            })
            .collect();
        run_round(cases, &mut out);
        out.count("m2/rounds");
        done += n;
    }
    out
}

pub fn musts(rep: &mut Reporter, thorough: bool) {
    let m = |q: u64| if thorough { q * 15 } else { q };
    for (c, min) in [
        ("m2/cases", 6_000),
        ("m2/lookups", 20_000),
        ("m2/second_lookup_served_from_cache", 2_000),
        ("m2/served_while_certainly_live", 2_000),
        ("m2/upstream_queries_after_error", 500),
        ("m2/expired_positive_refetched", 1_500),
        ("m2/expired_negative_refetched", 300),
        ("m2/refetched_within_400ms_after_deadline", 1_500),
        ("m2/expired_refetched/decided_by=cname_earlier_message", 200),
        ("m2/expired_refetched/decided_by=cname_same_message", 150),
        ("m2/expired_refetched/decided_by=final_rrset", 500),
        ("m2/expired_refetched/decided_by=soa", 200),
        ("m2/cached_result_aged_ge_1s", 300),
        ("m2/result/fresh/ok", 3_000),
        ("m2/result/cached/ok", 2_000),
        ("m2/result/fresh/no_records", 800),
        ("m2/result/cached/no_records", 300),
        ("m2/result/fresh/error", 500),
        ("m2/shape/direct", 500),
        ("m2/shape/cname_inmsg", 500),
        ("m2/shape/cname_multi", 1_000),
        ("m2/shape/cname_multi_then_end", 300),
        ("m2/shape/nxdomain_soa", 250),
        ("m2/shape/nodata_soa", 250),
        ("m2/shape/nxdomain_nosoa", 80),
        ("m2/shape/nodata_nosoa", 80),
        ("m2/shape/referral", 80),
        ("m2/preserve_intermediates/true", 2_000),
        ("m2/preserve_intermediates/false", 2_000),
    ] {
        rep.must(c, m(min));
    }
    for e in ERROR_KINDS {
        rep.must(&format!("m2/class/{e}"), m(40));
    }
}

pub fn merge(rep: &mut Reporter, out: Out) {
    rep.evals(out.evals);
    for h in out.hashes {
        rep.nontrivial(h ^ 0x6d32);
    }
    for (k, v) in out.counters {
        if !k.starts_with('\u{0}') {
            rep.add(&k, v);
        }
    }
    for s in out.samples {
        rep.sample(|| s);
    }
    for (rule, sig, case, exp, obs) in out.viols {
        rep.violation(&rule, &sig, case, exp, obs);
    }
}

pub fn replay(rep: &mut Reporter, c: &Value) {
    let Some(case) = Case::from_json(c) else {
        eprintln!("replay: malformed m2 case");
        std::process::exit(3);
    };
    let mut out = Out::default();
    run_round(vec![case], &mut out);
    merge(rep, out);
}

