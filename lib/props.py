"""Per-property driver configuration (binary, level, rule text, assumptions)."""

COMMON_ASSUME = [
    "harness builds /repo's working tree with --cfg hickory_dns_verif, opt-level 2, debug-assertions and overflow-checks on",
    "a verdict covers only the executions observed in this run (seeded generation; VERIF_SEED selects the stream)",
]

PROPS = {
    "C01": {
        "bin": "c01",
        "level": "exploration",
        "rule": "inputs: generated valid wire messages (all record types, compression), structure-aware mutants, every "
                "truncation point of small messages, raw random bytes (0..65535), constructed hostile shapes (pointer chains, "
                "255/256-octet names through pointers, label 63/64, lying RDLENGTH, count 65535), per-type RDATA valid/"
                "mutated/truncated. Each input is fed to every decode entry point (Message::from_vec, Request::from_bytes, "
                "Header/Queries/MessageRequest split path, DnsResponse::from_buffer, Record::read and Name::read at several "
                "offsets, RData::read for every type, TSigner::verify_message_byte on bytes that parse) under the panic "
                "monitor and the H1 decoder step counter (steps <= 128*len+4096). A case is one (entry point, input) "
                "evaluation; non-trivial/distinct = distinct input byte strings longer than the 12-byte header.",
        "assumptions": COMMON_ASSUME + [
            "linear-time clause judged on decoder primitive operations counted by hook H1, not on wall-clock",
            "TSIG verification is driven only on bytes that already passed the full message parse, as its real callers do",
        ],
        "thorough_flavours": ["shipped"],
    },
}

LEVEL_TEXT = {
    "exploration": "held on the executions observed: seeded, structure-aware generation of inputs/histories driven through the real code with an independent oracle judging every execution; no claim beyond what was run",
    "fault_enumeration": "held on the executions observed: faults (tampering, crashes, socket errors, schedules) are enumerated over every position of small scenarios and sampled beyond, each run judged by an independent oracle; no claim beyond what was run",
}

# properties this family genuinely cannot decide (none so far); everything else missing from PROPS is "not built yet"
NOT_APPLICABLE = {}
