//! Name-aware wire helpers on top of `refwire` (independent of hickory): locate the domain names
//! embedded in RDATA through the generator's per-type schema, decompress RDATA into a canonical
//! (pointer-free, case-preserving) form, and check the compression pointers of a whole message
//! against the set of label starts written earlier.
//!
//! Shared by the C02 and C03 binaries (`#[path]` include in c03).
#![allow(dead_code)]

use std::collections::HashSet;

use vh::gen::{self, F};
use vh::refwire::{self, WMessage, WRecord};

/// Types whose RDATA names a sender may compress (RFC 3597 §4: only the RFC 1035 types). Of the
/// types hickory implements these are the ones encoded with `RDataEncoding::StandardRecord`.
pub const COMPRESSIBLE: &[u16] = &[2, 5, 6, 12, 15];

pub fn is_compressible(code: u16) -> bool {
    COMPRESSIBLE.contains(&code)
}

#[derive(Clone, Debug)]
pub struct NameField {
    /// absolute offset of the name in the message
    pub off: usize,
    /// absolute offset just past the linear part of the name (terminal 0 or 2-byte pointer)
    pub end: usize,
    /// offsets of the label starts in the linear part
    pub label_starts: Vec<usize>,
    /// Some((pointer position, target)) if the linear part ends in a pointer
    pub pointer: Option<(usize, usize)>,
}

/// Walk the *linear* part of a name at `off` (no pointer following); must stay below `limit`.
pub fn linear_name(b: &[u8], off: usize, limit: usize) -> Result<NameField, String> {
    let mut pos = off;
    let mut label_starts = Vec::new();
    loop {
        if pos >= limit {
            return Err(format!("name at {off} runs past {limit}"));
        }
        let len = b[pos];
        match len & 0xC0 {
            0x00 => {
                if len == 0 {
                    return Ok(NameField { off, end: pos + 1, label_starts, pointer: None });
                }
                label_starts.push(pos);
                pos += 1 + len as usize;
            }
            0xC0 => {
                if pos + 2 > limit {
                    return Err(format!("pointer at {pos} runs past {limit}"));
                }
                let t = (((len & 0x3f) as usize) << 8) | b[pos + 1] as usize;
                return Ok(NameField { off, end: pos + 2, label_starts, pointer: Some((pos, t)) });
            }
            _ => return Err(format!("reserved label type at {pos}")),
        }
    }
}

/// Name fields inside the RDATA of record `r` according to the schema of its type. `Ok(vec![])`
/// for types without names or unknown types; `Err` when the RDATA does not follow the schema.
pub fn rdata_names(b: &[u8], code: u16, rdata_off: usize, rdata_len: usize) -> Result<Vec<NameField>, String> {
    let Some(ti) = gen::type_info(code) else {
        return Ok(vec![]);
    };
    if !ti.schema.iter().any(|f| matches!(f, F::NameC | F::NameNC)) {
        return Ok(vec![]);
    }
    let end = rdata_off + rdata_len;
    let mut pos = rdata_off;
    let mut out = Vec::new();
    let need = |pos: usize, n: usize| -> Result<(), String> {
        if pos + n > end {
            Err(format!("rdata field at {pos} (+{n}) runs past rdata end {end}"))
        } else {
            Ok(())
        }
    };
    for f in ti.schema {
        match f {
            F::NameC | F::NameNC => {
                let nf = linear_name(b, pos, end)?;
                pos = nf.end;
                out.push(nf);
            }
            F::U8 | F::Proto3 | F::N3Alg | F::N3Flags => {
                need(pos, 1)?;
                pos += 1
            }
            F::U16 => {
                need(pos, 2)?;
                pos += 2
            }
            F::U32 | F::V4 => {
                need(pos, 4)?;
                pos += 4
            }
            F::U48 => {
                need(pos, 6)?;
                pos += 6
            }
            F::V6 => {
                need(pos, 16)?;
                pos += 16
            }
            F::CharStr | F::L8Bytes => {
                need(pos, 1)?;
                let n = b[pos] as usize;
                need(pos + 1, n)?;
                pos += 1 + n;
            }
            F::L16Bytes => {
                need(pos, 2)?;
                let n = u16::from_be_bytes([b[pos], b[pos + 1]]) as usize;
                need(pos + 2, n)?;
                pos += 2 + n;
            }
            // everything else extends to the end of RDATA; no schema has a name after these
            F::CharStrs | F::Rest | F::Rest1 | F::Bitmap | F::SvcParams | F::EdnsOpts => {
                pos = end;
            }
        }
    }
    Ok(out)
}

/// RDATA with every embedded name replaced by its pointer-free form (case preserved).
/// `Err` if the RDATA does not follow the schema or a name cannot be resolved.
pub fn canonical_rdata(b: &[u8], r: &WRecord) -> Result<Vec<u8>, String> {
    let names = rdata_names(b, r.rtype, r.rdata_off, r.rdata_len)?;
    let mut out = Vec::with_capacity(r.rdata_len + 16);
    let mut pos = r.rdata_off;
    for nf in &names {
        out.extend_from_slice(&b[pos..nf.off]);
        let (n, _) = refwire::read_name(b, nf.off)?;
        refwire::put_name(&mut out, &n.labels);
        pos = nf.end;
    }
    out.extend_from_slice(&b[pos..r.rdata_off + r.rdata_len]);
    Ok(out)
}

/// Does any name inside this record's RDATA end in a compression pointer? (None: schema mismatch)
pub fn rdata_uses_pointer(b: &[u8], r: &WRecord) -> Option<bool> {
    rdata_names(b, r.rtype, r.rdata_off, r.rdata_len).ok().map(|v| v.iter().any(|n| n.pointer.is_some()))
}

#[derive(Default, Debug)]
pub struct PointerReport {
    /// number of compression pointers in the message (owner, question and RDATA names)
    pub pointers: usize,
    /// number of names (owner, question, RDATA)
    pub names: usize,
    /// first problem found
    pub problem: Option<(String, String)>, // (sig, text)
    /// highest offset a pointer targets
    pub max_target: usize,
    /// distinct pointer targets
    pub distinct_targets: usize,
}

/// Every compression pointer of the message must target the start of a label that was written
/// *earlier* as part of some name (question, owner, or RDATA name of a schema'd type), and RDATA
/// of types outside the RFC 1035 well-known set must not contain pointers at all.
pub fn check_pointers(b: &[u8], m: &WMessage) -> PointerReport {
    let mut rep = PointerReport::default();
    let mut starts: HashSet<usize> = HashSet::new();
    let mut targets: HashSet<usize> = HashSet::new();
    let mut visit = |nf: &NameField, what: &str, rep: &mut PointerReport, starts: &mut HashSet<usize>| {
        rep.names += 1;
        if let Some((at, t)) = nf.pointer {
            rep.pointers += 1;
            rep.max_target = rep.max_target.max(t);
            targets.insert(t);
            if rep.problem.is_none() {
                if t >= at {
                    rep.problem = Some((format!("{what}|forward"), format!("pointer at {at} targets {t} (not earlier)")));
                } else if !starts.contains(&t) {
                    rep.problem =
                        Some((format!("{what}|not-a-label-start"), format!("pointer at {at} targets {t}, which is not the start of an earlier label")));
                }
            }
        }
        for s in &nf.label_starts {
            starts.insert(*s);
        }
    };
    let mut off = 12;
    for q in &m.questions {
        match linear_name(b, off, b.len()) {
            Ok(nf) => {
                visit(&nf, "question", &mut rep, &mut starts);
                off = nf.end + 4;
            }
            Err(e) => {
                rep.problem.get_or_insert(("question|walk".into(), e));
                return rep;
            }
        }
        let _ = q;
    }
    for r in m.all_records() {
        match linear_name(b, r.start, b.len()) {
            Ok(nf) => visit(&nf, "owner", &mut rep, &mut starts),
            Err(e) => {
                rep.problem.get_or_insert(("owner|walk".into(), e));
                return rep;
            }
        }
        match rdata_names(b, r.rtype, r.rdata_off, r.rdata_len) {
            Ok(names) => {
                for nf in &names {
                    if nf.pointer.is_some() && !is_compressible(r.rtype) && rep.problem.is_none() {
                        rep.problem = Some((
                            format!("rdata|compressed-non-well-known|{}", type_name(r.rtype)),
                            format!("RDATA name of type {} at {} is compressed (RFC 3597 §4 forbids)", r.rtype, nf.off),
                        ));
                    }
                    visit(nf, "rdata", &mut rep, &mut starts);
                }
            }
            Err(e) => {
                if rep.problem.is_none() {
                    rep.problem = Some((format!("rdata|schema|{}", type_name(r.rtype)), e));
                }
            }
        }
    }
    rep.distinct_targets = targets.len();
    rep
}

pub fn type_name(code: u16) -> String {
    match gen::type_info(code) {
        Some(t) => t.name.to_string(),
        None => "Unknown".to_string(),
    }
}

/// A record reduced to what the wire says, with names decompressed: used for prefix / identity
/// comparisons between two encodings.
#[derive(Clone, Debug, PartialEq, Eq)]
pub struct CanonRecord {
    pub owner: Vec<Vec<u8>>,
    pub rtype: u16,
    pub class: u16,
    pub ttl: u32,
    /// canonical RDATA (raw RDATA when the schema walk fails)
    pub rdata: Vec<u8>,
}

pub fn canon_record(b: &[u8], r: &WRecord) -> CanonRecord {
    let rdata = canonical_rdata(b, r).unwrap_or_else(|_| r.rdata(b).to_vec());
    CanonRecord { owner: r.owner.labels.clone(), rtype: r.rtype, class: r.class, ttl: r.ttl, rdata }
}
