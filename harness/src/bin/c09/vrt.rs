//! Virtual-clock runtime provider: `Timer::current_time()` reads a harness-controlled variable;
//! no sockets (connect/bind fail). Shared by the DNSSEC validator checks (C06–C09).
#![allow(dead_code)]

use std::future::Future;
use std::io;
use std::net::SocketAddr;
use std::pin::Pin;
use std::sync::atomic::{AtomicU64, Ordering};
use std::time::Duration;

use hickory_net::runtime::{RuntimeProvider, Time, TokioRuntimeProvider};

pub static CLOCK: AtomicU64 = AtomicU64::new(1_700_000_000);
static CLOCK_BASE: AtomicU64 = AtomicU64::new(1_700_000_000);

/// start of a history: set the clock and reset the validation-cache clock offset (hook H7)
pub fn clock_reset(t: u64) {
    CLOCK.store(t, Ordering::SeqCst);
    CLOCK_BASE.store(t, Ordering::SeqCst);
    hickory_net::dnssec::verif::set_validation_cache_clock_offset(0);
}

/// move the clock forward inside a history; the validation cache ages by the same amount
pub fn clock_set_forward(t: u64) {
    let base = CLOCK_BASE.load(Ordering::SeqCst);
    CLOCK.store(t, Ordering::SeqCst);
    hickory_net::dnssec::verif::set_validation_cache_clock_offset(t.saturating_sub(base));
}

pub fn now() -> u64 {
    CLOCK.load(Ordering::SeqCst)
}

#[derive(Clone, Copy)]
pub struct VTime;

#[async_trait::async_trait]
impl Time for VTime {
    async fn delay_for(d: Duration) {
        tokio::time::sleep(d).await
    }
    async fn timeout<F: 'static + Future + Send>(d: Duration, f: F) -> Result<F::Output, io::Error> {
        tokio::time::timeout(d, f).await.map_err(|_| io::Error::new(io::ErrorKind::TimedOut, "timeout"))
    }
    fn current_time() -> u64 {
        CLOCK.load(Ordering::SeqCst)
    }
}

#[derive(Clone)]
pub struct VRuntime(pub TokioRuntimeProvider);

impl VRuntime {
    pub fn new() -> Self {
        Self(TokioRuntimeProvider::new())
    }
}

impl RuntimeProvider for VRuntime {
    type Handle = <TokioRuntimeProvider as RuntimeProvider>::Handle;
    type Timer = VTime;
    type Udp = <TokioRuntimeProvider as RuntimeProvider>::Udp;
    type Tcp = <TokioRuntimeProvider as RuntimeProvider>::Tcp;
    fn create_handle(&self) -> Self::Handle {
        self.0.create_handle()
    }
    fn connect_tcp(&self, _: SocketAddr, _: Option<SocketAddr>, _: Option<Duration>) -> Pin<Box<dyn Send + Future<Output = Result<Self::Tcp, io::Error>>>> {
        Box::pin(async { Err(io::Error::other("no network in the harness")) })
    }
    fn bind_udp(&self, _: SocketAddr, _: SocketAddr) -> Pin<Box<dyn Send + Future<Output = Result<Self::Udp, io::Error>>>> {
        Box::pin(async { Err(io::Error::other("no network in the harness")) })
    }
}
