//! Genuine NSEC / NSEC3 chains of a reference zone (DESIGN App. A.3) and their RDATA encodings.
//! The chain builders are a copy of the ones in `c08/denial.rs` (owned by another check; copied so
//! that this binary does not depend on a file that is still being edited), plus the wire encoders
//! for NSEC / NSEC3 / NSEC3PARAM RDATA and the RFC 4034 §4.1.2 type bitmap. Plain types only.
#![allow(dead_code)]

use std::collections::{BTreeMap, BTreeSet};

use crate::refzone::{self, fold, suffix, ty, CName, Name, Zone};

pub const T_RRSIG: u16 = 46;
pub const T_NSEC: u16 = 47;
pub const T_NSEC3: u16 = 50;
pub const T_NSEC3PARAM: u16 = 51;

#[derive(Clone, Debug, PartialEq, Eq, PartialOrd, Ord)]
pub struct Nsec {
    pub owner: Name,
    pub next: Name,
    pub types: BTreeSet<u16>,
}

/// types shown in the denial bitmap at `n` (n owns visible data)
fn bitmap_types(z: &Zone, n: &[Vec<u8>], self_type: u16) -> BTreeSet<u16> {
    let mut t: BTreeSet<u16> = BTreeSet::new();
    if let Some(node) = z.node(n) {
        if z.is_delegation(n) {
            // parent side of a cut: NS and DS only
            for k in node.keys() {
                if *k == ty::NS || *k == ty::DS {
                    t.insert(*k);
                }
            }
        } else {
            t.extend(node.keys().copied());
        }
    }
    t.insert(T_RRSIG);
    if self_type == T_NSEC {
        t.insert(T_NSEC);
    }
    t
}

pub fn nsec_chain(z: &Zone) -> Vec<Nsec> {
    let owners: Vec<Name> = z.owners().filter(|o| z.in_zone(o) && !z.occluded(o)).cloned().collect();
    let mut out = Vec::new();
    for (i, o) in owners.iter().enumerate() {
        let next = owners[(i + 1) % owners.len()].clone();
        out.push(Nsec { owner: o.clone(), next, types: bitmap_types(z, o, T_NSEC) });
    }
    out
}

#[derive(Clone, Debug, PartialEq, Eq, PartialOrd, Ord)]
pub struct Nsec3Params {
    pub salt: Vec<u8>,
    pub iterations: u16,
    pub opt_out: bool,
}

#[derive(Clone, Debug, PartialEq, Eq, PartialOrd, Ord)]
pub struct Nsec3 {
    /// hash of the owner (20 bytes)
    pub hash: Vec<u8>,
    pub next: Vec<u8>,
    pub types: BTreeSet<u16>,
    pub opt_out: bool,
    /// the original owner name (not part of the record)
    pub of: Name,
}

/// RFC 5155 §5: IH(salt, x, 0) = H(x || salt); IH(salt, x, k) = H(IH(salt, x, k-1) || salt)
pub fn nsec3_hash(name: &[Vec<u8>], salt: &[u8], iterations: u16) -> Vec<u8> {
    let mut data = refzone::wire_name(&fold(name));
    data.extend_from_slice(salt);
    let mut h = ring::digest::digest(&ring::digest::SHA1_FOR_LEGACY_USE_ONLY, &data).as_ref().to_vec();
    for _ in 0..iterations {
        let mut d = h.clone();
        d.extend_from_slice(salt);
        h = ring::digest::digest(&ring::digest::SHA1_FOR_LEGACY_USE_ONLY, &d).as_ref().to_vec();
    }
    h
}

pub fn base32hex(b: &[u8]) -> Vec<u8> {
    const A: &[u8; 32] = b"0123456789abcdefghijklmnopqrstuv";
    let mut out = Vec::new();
    let mut acc: u32 = 0;
    let mut bits = 0;
    for x in b {
        acc = (acc << 8) | *x as u32;
        bits += 8;
        while bits >= 5 {
            out.push(A[((acc >> (bits - 5)) & 31) as usize]);
            bits -= 5;
        }
    }
    if bits > 0 {
        out.push(A[((acc << (5 - bits)) & 31) as usize]);
    }
    out
}

/// names that get an NSEC3 record: every existing name incl. ENTs; under opt-out, insecure
/// delegations (cut without DS) are omitted — and so are ENTs that exist only because of them.
pub fn nsec3_names(z: &Zone, opt_out: bool) -> Vec<Name> {
    let mut set: BTreeMap<CName, ()> = BTreeMap::new();
    set.insert(CName(z.apex.clone()), ());
    for o in z.owners() {
        if !z.in_zone(o) || z.occluded(o) {
            continue;
        }
        if opt_out && z.is_delegation(o) && z.rrset(o, ty::DS).is_none() {
            continue;
        }
        let mut k = o.len();
        while k > z.apex.len() {
            set.insert(CName(suffix(o, k)), ());
            k -= 1;
        }
    }
    set.into_keys().map(|c| c.0).collect()
}

pub fn nsec3_chain(z: &Zone, p: &Nsec3Params) -> Vec<Nsec3> {
    let mut v: Vec<(Vec<u8>, Name)> = nsec3_names(z, p.opt_out).into_iter().map(|n| (nsec3_hash(&n, &p.salt, p.iterations), n)).collect();
    v.sort();
    let mut out = Vec::new();
    for i in 0..v.len() {
        let (h, n) = &v[i];
        let next = v[(i + 1) % v.len()].0.clone();
        let mut types = if z.node(n).is_some() { bitmap_types(z, n, T_NSEC3) } else { BTreeSet::new() };
        // RFC 5155 §7.1: the RRSIG bit is only set when an authoritative RRset exists at the name
        if z.node(n).is_none() || (z.is_delegation(n) && z.rrset(n, ty::DS).is_none()) {
            types.remove(&T_RRSIG);
        }
        out.push(Nsec3 { hash: h.clone(), next, types, opt_out: p.opt_out, of: n.clone() });
    }
    out
}

// ---------------------------------------------------------------------------------------------
// RDATA encoders

/// RFC 4034 §4.1.2 type bitmap
pub fn type_bitmap(types: &BTreeSet<u16>) -> Vec<u8> {
    let mut out = Vec::new();
    let mut windows: BTreeMap<u8, [u8; 32]> = BTreeMap::new();
    for t in types {
        let w = (*t >> 8) as u8;
        let lo = (*t & 0xff) as usize;
        windows.entry(w).or_insert([0u8; 32])[lo / 8] |= 0x80 >> (lo % 8);
    }
    for (w, bits) in windows {
        let len = bits.iter().rposition(|b| *b != 0).map(|p| p + 1).unwrap_or(0);
        if len == 0 {
            continue;
        }
        out.push(w);
        out.push(len as u8);
        out.extend_from_slice(&bits[..len]);
    }
    out
}

pub fn nsec_rdata(n: &Nsec) -> Vec<u8> {
    let mut out = refzone::wire_name(&n.next);
    out.extend(type_bitmap(&n.types));
    out
}

pub fn nsec3_rdata(n: &Nsec3, p: &Nsec3Params) -> Vec<u8> {
    let mut out = vec![1u8, if n.opt_out { 1 } else { 0 }];
    out.extend_from_slice(&p.iterations.to_be_bytes());
    out.push(p.salt.len() as u8);
    out.extend_from_slice(&p.salt);
    out.push(n.next.len() as u8);
    out.extend_from_slice(&n.next);
    out.extend(type_bitmap(&n.types));
    out
}

pub fn nsec3param_rdata(p: &Nsec3Params) -> Vec<u8> {
    let mut out = vec![1u8, 0];
    out.extend_from_slice(&p.iterations.to_be_bytes());
    out.push(p.salt.len() as u8);
    out.extend_from_slice(&p.salt);
    out
}

pub fn nsec3_owner(n: &Nsec3, apex: &[Vec<u8>]) -> Name {
    let mut o = vec![base32hex(&n.hash)];
    o.extend(apex.iter().cloned());
    o
}
