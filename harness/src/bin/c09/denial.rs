//! NSEC3 side of the denial model (DESIGN App. A.3–A.5), evolved from the C08/C09 draft
//! `c08/denial.rs`: genuine NSEC3 chain N3(Z) of a reference zone, the *claim* a negative or
//! wildcard-expanded response makes, the reference RFC 5155 §7.2 proof roles, and the
//! counter-model search. Plain types only (names `Vec<Vec<u8>>`, hashes `Vec<u8>`); SHA-1 comes
//! from ring directly, base32hex is written out here. Nothing in this file calls hickory.
#![allow(dead_code)]

use std::collections::{BTreeMap, BTreeSet, HashMap};

use crate::refzone::{self, child, fold, is_wildcard, suffix, ty, wildcard_of, CName, Name, Zone};

pub const T_RRSIG: u16 = 46;
pub const T_DNSKEY: u16 = 48;
pub const T_NSEC3: u16 = 50;
pub const T_NSEC3PARAM: u16 = 51;

// ---------------------------------------------------------------------------------------------
// hashing (RFC 5155 §5) and base32hex (RFC 4648 §7, lower case, no padding)

/// IH(salt, x, 0) = H(x || salt); IH(salt, x, k) = H(IH(salt, x, k-1) || salt); x = canonical
/// (lower-cased, uncompressed, fully qualified) wire form of the owner name.
pub fn nsec3_hash(name: &[Vec<u8>], salt: &[u8], iterations: u16) -> Vec<u8> {
    let mut data = refzone::wire_name(&fold(name));
    data.extend_from_slice(salt);
    let mut h = ring::digest::digest(&ring::digest::SHA1_FOR_LEGACY_USE_ONLY, &data).as_ref().to_vec();
    for _ in 0..iterations {
        let mut d = h.clone();
        d.extend_from_slice(salt);
        h = ring::digest::digest(&ring::digest::SHA1_FOR_LEGACY_USE_ONLY, &d).as_ref().to_vec();
    }
    h
}

pub fn base32hex(b: &[u8]) -> Vec<u8> {
    const A: &[u8; 32] = b"0123456789abcdefghijklmnopqrstuv";
    let mut out = Vec::new();
    let mut acc: u32 = 0;
    let mut bits = 0;
    for x in b {
        acc = ((acc << 8) | *x as u32) & 0xffff;
        bits += 8;
        while bits >= 5 {
            out.push(A[((acc >> (bits - 5)) & 31) as usize]);
            bits -= 5;
        }
    }
    if bits > 0 {
        out.push(A[((acc << (5 - bits)) & 31) as usize]);
    }
    out
}

#[derive(Clone, Debug, PartialEq, Eq, Hash, PartialOrd, Ord)]
pub struct HashParams {
    pub salt: Vec<u8>,
    pub iterations: u16,
}

/// memoising hasher for one parameter set
pub struct Hasher {
    pub p: HashParams,
    cache: HashMap<Name, Vec<u8>>,
}

impl Hasher {
    pub fn new(p: &HashParams) -> Self {
        Self { p: p.clone(), cache: HashMap::new() }
    }
    pub fn h(&mut self, n: &[Vec<u8>]) -> Vec<u8> {
        let k = fold(n);
        if let Some(v) = self.cache.get(&k) {
            return v.clone();
        }
        let v = nsec3_hash(&k, &self.p.salt, self.p.iterations);
        self.cache.insert(k, v.clone());
        v
    }
}

// ---------------------------------------------------------------------------------------------
// NSEC3 chain (App. A.3)

#[derive(Clone, Debug, PartialEq, Eq, PartialOrd, Ord)]
pub struct N3 {
    /// hash of the original owner name (20 octets)
    pub hash: Vec<u8>,
    pub next: Vec<u8>,
    pub types: BTreeSet<u16>,
    pub opt_out: bool,
    /// original owner name – NOT part of the record (witness readability only)
    pub of: Name,
}

impl N3 {
    /// identity of the record as a validator sees it: owner hash, next hash, bitmap, flags
    pub fn fp(&self) -> u64 {
        let mut b = Vec::with_capacity(64);
        b.extend_from_slice(&self.hash);
        b.push(0xff);
        b.extend_from_slice(&self.next);
        b.push(self.opt_out as u8);
        for t in &self.types {
            b.extend_from_slice(&t.to_be_bytes());
        }
        vh::prng::fnv64(&b)
    }
    pub fn matches(&self, h: &[u8]) -> bool {
        self.hash.as_slice() == h
    }
    /// RFC 5155 §1.3 "cover": h strictly between owner hash and next hash; the last record of the
    /// chain (next <= owner) covers everything after its owner and everything before its next.
    pub fn covers(&self, h: &[u8]) -> bool {
        let o = self.hash.as_slice();
        let n = self.next.as_slice();
        if h == o {
            return false;
        }
        if o < n {
            o < h && h < n
        } else {
            h > o || h < n
        }
    }
}

/// types shown in the bitmap of the NSEC3 whose original owner is `n`
fn bitmap_types(z: &Zone, n: &[Vec<u8>]) -> BTreeSet<u16> {
    let mut t: BTreeSet<u16> = BTreeSet::new();
    let Some(node) = z.node(n) else { return t }; // empty non-terminal: empty bitmap (RFC 5155 §7.1)
    if z.is_delegation(n) {
        // parent side of a cut: NS and DS only (other data at the cut name belongs to the child)
        for k in node.keys() {
            if *k == ty::NS || *k == ty::DS {
                t.insert(*k);
            }
        }
        // RRSIG bit only when an authoritative RRset (DS) exists
        if t.contains(&ty::DS) {
            t.insert(T_RRSIG);
        }
    } else {
        t.extend(node.keys().copied());
        t.insert(T_RRSIG);
    }
    if fold(n) == z.apex {
        t.insert(T_DNSKEY);
        t.insert(T_NSEC3PARAM);
    }
    t
}

/// Names that get an NSEC3 RR: every existing name incl. empty non-terminals; with opt-out,
/// insecure delegations (cut without DS) are left out, and with them the empty non-terminals that
/// exist only because of them (RFC 5155 §7.1).
pub fn nsec3_names(z: &Zone, opt_out: bool) -> Vec<Name> {
    let mut set: BTreeMap<CName, ()> = BTreeMap::new();
    set.insert(CName(z.apex.clone()), ());
    for o in z.owners() {
        if !z.in_zone(o) || z.occluded(o) {
            continue;
        }
        if opt_out && z.is_delegation(o) && z.rrset(o, ty::DS).is_none() {
            continue;
        }
        let mut k = o.len();
        while k > z.apex.len() {
            set.insert(CName(suffix(o, k)), ());
            k -= 1;
        }
    }
    set.into_keys().map(|c| c.0).collect()
}

pub fn nsec3_chain(z: &Zone, opt_out: bool, hs: &mut Hasher) -> Vec<N3> {
    let mut v: Vec<(Vec<u8>, Name)> = nsec3_names(z, opt_out).into_iter().map(|n| (hs.h(&n), n)).collect();
    v.sort();
    let mut out = Vec::with_capacity(v.len());
    for i in 0..v.len() {
        let (h, n) = &v[i];
        let next = v[(i + 1) % v.len()].0.clone();
        out.push(N3 { hash: h.clone(), next, types: bitmap_types(z, n), opt_out, of: n.clone() });
    }
    out
}

// ---------------------------------------------------------------------------------------------
// claims (App. A.4)

#[derive(Clone, Debug, PartialEq, Eq, Hash)]
pub enum Claim {
    /// rcode NXDOMAIN, no answer
    NxDomain,
    /// rcode NOERROR, no answer
    NoData,
    /// rcode NOERROR, answer synthesised from `*.`(rightmost `labels` labels of qname)
    Expansion { labels: usize },
}

impl Claim {
    pub fn as_str(&self) -> &'static str {
        match self {
            Claim::NxDomain => "nxdomain",
            Claim::NoData => "nodata",
            Claim::Expansion { .. } => "expansion",
        }
    }
}

#[derive(Clone, Debug, PartialEq, Eq)]
pub enum Truth {
    True,
    /// unambiguously false, with the reason
    False(&'static str),
    /// at or below a zone cut (and not DS at the cut): records of this zone cannot entail it,
    /// whatever they are – the child zone may hold the name / the type (A.4, RFC 6840 §4.1,
    /// RFC 5155 §8.3 last paragraph)
    NotEntailable(&'static str),
    /// not what an honest server would send, but not a harmful falsehood either (don't-care)
    Ambiguous(&'static str),
}

impl Truth {
    pub fn refutes(&self) -> bool {
        matches!(self, Truth::False(_) | Truth::NotEntailable(_))
    }
    pub fn reason(&self) -> &'static str {
        match self {
            Truth::True => "true",
            Truth::False(r) | Truth::NotEntailable(r) | Truth::Ambiguous(r) => r,
        }
    }
}

/// Is the claim true of zone `z`?
pub fn claim_truth(z: &Zone, q: &[Vec<u8>], t: u16, claim: &Claim) -> Truth {
    if !z.in_zone(q) {
        return Truth::NotEntailable("qname-outside-zone");
    }
    if let Claim::Expansion { labels } = claim {
        // The answer carries the wildcard's RRSIG (Labels = `labels`, signed by this zone): that
        // alone shows `*.<ce>` is authoritative data of the zone, hence that <ce> exists and is
        // neither a delegation nor below one. Worlds without such a wildcard are not refutations
        // of the NSEC3 part of the proof — the RRSIG could not be genuine there.
        if *labels >= q.len() || *labels < z.apex.len() {
            return Truth::Ambiguous("labels-out-of-range");
        }
        let w = wildcard_of(&suffix(q, *labels));
        if !z.owns_visible_data(&w) {
            return Truth::Ambiguous("wildcard-missing");
        }
        if z.occluded(q) {
            return Truth::NotEntailable("below-cut");
        }
        if z.is_delegation(q) {
            return Truth::False("qname-is-delegation");
        }
        if z.exists(q) {
            return Truth::False("qname-exists");
        }
        if z.closest_encloser(q).len() > *labels {
            return Truth::False("closer-encloser-exists");
        }
        return Truth::True;
    }
    if z.occluded(q) {
        if *claim == Claim::NoData && t == ty::DS {
            // "no DS at q" below an *insecure* delegation is harmless (everything there is
            // insecure anyway, and RFC 5155 §8.6 accepts exactly such opt-out proofs); below a
            // *secure* delegation it is a downgrade: only the child zone can say it
            let cut = z.covering_cut(q).unwrap_or_default();
            if z.rrset(&cut, ty::DS).is_none() {
                return Truth::Ambiguous("ds-below-insecure-cut");
            }
        }
        return Truth::NotEntailable("below-cut");
    }
    let at_cut = z.is_delegation(q);
    match claim {
        Claim::NxDomain => {
            if at_cut {
                return Truth::False("qname-is-delegation");
            }
            if z.exists(q) {
                return Truth::False("qname-exists");
            }
            if z.exists(&z.source_of_synthesis(q)) {
                return Truth::False("wildcard-exists");
            }
            Truth::True
        }
        Claim::NoData => {
            if at_cut {
                if t != ty::DS {
                    return Truth::NotEntailable("at-cut");
                }
                return if z.rrset(q, ty::DS).is_some() { Truth::False("type-present") } else { Truth::True };
            }
            if t == ty::DS {
                // DS lives at delegation points only and is never synthesised from a wildcard. What
                // "no DS" proofs have to exclude is a DS RRset at q (handled above: q at a cut) or a
                // CNAME at an existing q. DS at the apex belongs to the parent zone, and "no DS at
                // a name that does not exist" is true whatever else the zone holds: not judged.
                if fold(q) == z.apex {
                    return Truth::Ambiguous("ds-at-apex");
                }
                if !z.exists(q) {
                    return Truth::Ambiguous("ds-at-nonexistent-name");
                }
                if z.authoritative_types(q).contains(&ty::CNAME) {
                    return Truth::False("cname-present");
                }
                return Truth::True;
            }
            let node = if z.exists(q) {
                fold(q)
            } else {
                let w = z.source_of_synthesis(q);
                if !z.exists(&w) {
                    return Truth::Ambiguous("nxdomain-is-the-truth");
                }
                w
            };
            if z.is_delegation(&node) {
                return Truth::NotEntailable("wildcard-at-cut");
            }
            let auth = z.authoritative_types(&node);
            if auth.contains(&t) {
                return Truth::False("type-present");
            }
            if auth.contains(&ty::CNAME) && t != ty::CNAME {
                return Truth::False("cname-present");
            }
            Truth::True
        }
        Claim::Expansion { labels } => unreachable!("handled above: {labels}"),
    }
}

// ---------------------------------------------------------------------------------------------
// reference proof roles (RFC 5155 §7.2 / §8)

/// What the RFC 5155 §8 proof for a *true* claim consists of, and which parts a record set has.
#[derive(Clone, Debug, Default)]
pub struct Roles {
    /// sub-kind: direct | wildcard | ds-optout | nxdomain | expansion
    pub sub: &'static str,
    /// (role name, present in S)
    pub parts: Vec<(&'static str, bool)>,
    /// the record covering the next closer name has the Opt-Out flag (and the claim is not the
    /// DS/opt-out one)
    pub nc_optout: bool,
    /// expansion only: a record matching the query name itself is in the set
    pub qname_matched: bool,
    pub ce: Name,
    pub nc: Option<Name>,
}

impl Roles {
    pub fn complete(&self) -> bool {
        self.parts.iter().all(|(_, p)| *p)
    }
    pub fn missing(&self) -> String {
        let m: Vec<&str> = self.parts.iter().filter(|(_, p)| !*p).map(|(r, _)| *r).collect();
        if m.is_empty() {
            "none".into()
        } else {
            m.join("+")
        }
    }
}

/// Closest *provable* encloser: the longest ancestor-or-self of `q` that owns an NSEC3 RR. Differs
/// from the closest encloser only under opt-out (an empty non-terminal that exists solely because
/// of insecure delegations has no NSEC3 RR, RFC 5155 §7.1).
pub fn provable_encloser(z: &Zone, q: &[Vec<u8>], opt_out: bool) -> Name {
    if !opt_out {
        return z.closest_encloser(q);
    }
    let names: BTreeSet<CName> = nsec3_names(z, true).into_iter().map(CName).collect();
    let mut k = q.len();
    while k > z.apex.len() {
        let cand = fold(&suffix(q, k));
        if names.contains(&CName(cand.clone())) {
            return cand;
        }
        k -= 1;
    }
    z.apex.clone()
}

/// Reference proof for `claim` about (q, t) in zone `z` (claim assumed true of z), evaluated on
/// the record set `s` (all of one parameter group, hashed by `hs`).
pub fn roles(z: &Zone, q: &[Vec<u8>], t: u16, claim: &Claim, opt_out: bool, s: &[&N3], hs: &mut Hasher) -> Roles {
    let q = fold(q);
    let hq = hs.h(&q);
    let has_match = |h: &[u8]| s.iter().any(|r| r.matches(h));
    let cover = |h: &[u8]| s.iter().find(|r| r.covers(h)).map(|r| r.opt_out);
    let mut r = Roles::default();
    let ce_proof = |r: &mut Roles, hs: &mut Hasher, ce: &Name| {
        r.ce = ce.clone();
        let nc = suffix(&q, ce.len() + 1);
        let hce = hs.h(ce);
        let hnc = hs.h(&nc);
        r.parts.push(("match-ce", has_match(&hce)));
        let c = cover(&hnc);
        r.parts.push(("cover-nc", c.is_some()));
        r.nc = Some(nc);
        c.unwrap_or(false)
    };
    match claim {
        Claim::NoData => {
            let in_chain = z.exists(&q) && (!opt_out || nsec3_names(z, true).iter().any(|n| *n == q));
            if in_chain {
                r.sub = "direct";
                r.ce = q.clone();
                r.parts.push(("match-qname", has_match(&hq)));
            } else if z.exists(&q) {
                // insecure delegation (or an empty non-terminal that exists only because of one)
                // left out of an opt-out chain: closest provable encloser + opt-out cover (§8.6)
                let ce = provable_encloser(z, &suffix(&q, q.len() - 1), opt_out);
                let oo = ce_proof(&mut r, hs, &ce);
                if t == ty::DS {
                    r.sub = "ds-optout";
                    r.parts.push(("nc-optout", oo));
                } else {
                    // no RFC 5155 §8 proof exists for other types at a name without NSEC3 RR; an
                    // opt-out span proves nothing about them
                    r.sub = "optout-ent";
                    r.nc_optout = oo;
                }
            } else {
                r.sub = "wildcard";
                let ce = provable_encloser(z, &q, opt_out);
                let oo = ce_proof(&mut r, hs, &ce);
                r.nc_optout = oo;
                let hw = hs.h(&wildcard_of(&ce));
                r.parts.push(("match-wc", has_match(&hw)));
            }
        }
        Claim::NxDomain => {
            r.sub = "nxdomain";
            let ce = provable_encloser(z, &q, opt_out);
            let oo = ce_proof(&mut r, hs, &ce);
            r.nc_optout = oo;
            let hw = hs.h(&wildcard_of(&ce));
            r.parts.push(("cover-wc", cover(&hw).is_some()));
        }
        Claim::Expansion { labels } => {
            r.sub = "expansion";
            r.qname_matched = has_match(&hq);
            let ce = suffix(&q, *labels);
            r.ce = ce.clone();
            let nc = suffix(&q, ce.len() + 1);
            let hnc = hs.h(&nc);
            let c = cover(&hnc);
            r.parts.push(("cover-nc", c.is_some()));
            r.nc_optout = c.unwrap_or(false);
            r.nc = Some(nc);
        }
    }
    r
}

/// The proof shape a record set *presents* for q, read off the set alone (no zone knowledge):
/// is q matched or covered, which is the longest strict ancestor that is matched (for an
/// expansion: the ancestor the RRSIG Labels field names), is the next closer name below it
/// covered (and by an Opt-Out record), do the matching records look like delegations.
#[derive(Clone, Debug, Default)]
pub struct Presented {
    pub q_matched: bool,
    /// the record matching q has NS without SOA (parent side of a delegation)
    pub q_deleg: bool,
    /// Some(opt-out flag) of a record covering q itself
    pub q_cover: Option<bool>,
    pub ce: Option<Name>,
    pub ce_matched: bool,
    pub ce_deleg: bool,
    /// Some(opt-out flag of the covering record)
    pub nc_cover: Option<bool>,
}

pub fn presented(q: &[Vec<u8>], claim: &Claim, apex_len: usize, s: &[&N3], hs: &mut Hasher) -> Presented {
    let q = fold(q);
    let mut p = Presented::default();
    let is_deleg = |r: &N3| r.types.contains(&ty::NS) && !r.types.contains(&ty::SOA);
    let hq = hs.h(&q);
    if let Some(r) = s.iter().find(|r| r.matches(&hq)) {
        p.q_matched = true;
        p.q_deleg = is_deleg(r);
    }
    p.q_cover = s.iter().find(|r| r.covers(&hq)).map(|r| r.opt_out);
    if let Claim::Expansion { labels } = claim {
        if *labels < q.len() && *labels >= apex_len {
            let a = suffix(&q, *labels);
            let ha = hs.h(&a);
            if let Some(r) = s.iter().find(|r| r.matches(&ha)) {
                p.ce_matched = true;
                p.ce_deleg = is_deleg(r);
            }
            let hnc = hs.h(&suffix(&q, labels + 1));
            p.nc_cover = s.iter().find(|r| r.covers(&hnc)).map(|r| r.opt_out);
            p.ce = Some(a);
        }
        return p;
    }
    let mut k = q.len();
    while k > apex_len {
        k -= 1;
        let a = suffix(&q, k);
        let ha = hs.h(&a);
        if let Some(r) = s.iter().find(|r| r.matches(&ha)) {
            p.ce_matched = true;
            p.ce_deleg = is_deleg(r);
            let hnc = hs.h(&suffix(&q, k + 1));
            p.nc_cover = s.iter().find(|r| r.covers(&hnc)).map(|r| r.opt_out);
            p.ce = Some(a);
            break;
        }
    }
    p
}

/// The records of `chain` an honest server sends for the (true) claim — RFC 5155 §7.2.
pub fn reference_proof(z: &Zone, q: &[Vec<u8>], claim: &Claim, opt_out: bool, chain: &[N3], hs: &mut Hasher) -> Vec<usize> {
    let q = fold(q);
    let mut idx: BTreeSet<usize> = BTreeSet::new();
    let find_match = |h: &[u8]| chain.iter().position(|r| r.matches(h));
    let find_cover = |h: &[u8]| chain.iter().position(|r| r.covers(h));
    let ce_proof = |idx: &mut BTreeSet<usize>, hs: &mut Hasher, ce: &Name| {
        if let Some(i) = find_match(&hs.h(ce)) {
            idx.insert(i);
        }
        if let Some(i) = find_cover(&hs.h(&suffix(&q, ce.len() + 1))) {
            idx.insert(i);
        }
    };
    match claim {
        Claim::NoData => {
            if let Some(i) = find_match(&hs.h(&q)) {
                idx.insert(i);
            } else if z.exists(&q) {
                let ce = provable_encloser(z, &suffix(&q, q.len() - 1), opt_out);
                ce_proof(&mut idx, hs, &ce);
            } else {
                let ce = provable_encloser(z, &q, opt_out);
                ce_proof(&mut idx, hs, &ce);
                if let Some(i) = find_match(&hs.h(&wildcard_of(&ce))) {
                    idx.insert(i);
                }
            }
        }
        Claim::NxDomain => {
            let ce = provable_encloser(z, &q, opt_out);
            ce_proof(&mut idx, hs, &ce);
            if let Some(i) = find_cover(&hs.h(&wildcard_of(&ce))) {
                idx.insert(i);
            }
        }
        Claim::Expansion { labels } => {
            if let Some(i) = find_cover(&hs.h(&suffix(&q, labels + 1))) {
                idx.insert(i);
            }
        }
    }
    idx.into_iter().collect()
}

// ---------------------------------------------------------------------------------------------
// counter-model search (App. A.5)

/// names whose content the search toggles: q, its ancestors below the apex, `*.a` for every
/// ancestor a (incl. the apex), one child of q
pub fn relevant_names(z: &Zone, q: &[Vec<u8>]) -> Vec<Name> {
    let mut v: Vec<Name> = Vec::new();
    let q = fold(q);
    let mut k = q.len();
    while k > z.apex.len() {
        v.push(suffix(&q, k));
        v.push(wildcard_of(&suffix(&q, k - 1)));
        k -= 1;
    }
    v.push(wildcard_of(&z.apex));
    v.push(child(b"c", &q));
    let mut seen: BTreeSet<CName> = BTreeSet::new();
    v.retain(|n| z.in_zone(n) && *n != z.apex && seen.insert(CName(n.clone())));
    v
}

#[derive(Clone, Debug, PartialEq, Eq)]
pub enum Edit {
    Remove(Name),
    /// make the node hold exactly this type, replacing what is there
    SetOnly(Name, u16),
    /// add the type to the node
    AddType(Name, u16),
    /// make the node a delegation (NS, and DS if `secure`), replacing what is there
    SetDeleg(Name, bool),
}

pub fn filler_rdata(t: u16, apex: &[Vec<u8>]) -> Vec<u8> {
    match t {
        x if x == ty::A => refzone::rd_a(200),
        x if x == ty::AAAA => refzone::rd_aaaa(200),
        x if x == ty::MX => refzone::rd_mx(5, apex),
        x if x == ty::CNAME => refzone::rd_name(&child(b"a", apex)),
        x if x == ty::NS => refzone::rd_name(&refzone::name("ns.y.")),
        x if x == ty::DS => refzone::rd_ds(77),
        _ => refzone::rd_txt("counter-model"),
    }
}

pub fn apply(z: &Zone, e: &Edit) -> Option<Zone> {
    let mut z2 = z.clone();
    match e {
        Edit::Remove(n) => {
            if *n == z.apex || !z2.remove_name(n) {
                return None;
            }
        }
        Edit::SetOnly(n, t) => {
            if *n == z.apex || *t == ty::DS || *t == ty::NS {
                return None;
            }
            z2.remove_name(n);
            z2.add(n, *t, filler_rdata(*t, &z.apex));
        }
        Edit::AddType(n, t) => {
            if *t == ty::DS {
                // DS only beside an NS set, never at the apex
                if *n == z.apex || z2.rrset(n, ty::NS).is_none() {
                    return None;
                }
            }
            if *t == ty::NS && (*n == z.apex || is_wildcard(n)) {
                return None;
            }
            if !z2.can_add(n, *t) || !z2.add(n, *t, filler_rdata(*t, &z.apex)) {
                return None;
            }
        }
        Edit::SetDeleg(n, secure) => {
            if *n == z.apex || is_wildcard(n) {
                return None;
            }
            z2.remove_name(n);
            z2.add(n, ty::NS, filler_rdata(ty::NS, &z.apex));
            if *secure {
                z2.add(n, ty::DS, filler_rdata(ty::DS, &z.apex));
            }
        }
    }
    if z2 == *z {
        return None;
    }
    Some(z2)
}

pub fn apply_all(z: &Zone, edits: &[Edit]) -> Option<Zone> {
    let mut cur = z.clone();
    for e in edits {
        cur = apply(&cur, e)?;
    }
    Some(cur)
}

pub fn single_edits(z: &Zone, q: &[Vec<u8>], t: u16) -> Vec<Edit> {
    // a data type standing for "the queried type" and one standing for "some other type"
    let (tt, other) = match t {
        x if x == ty::DS || x == ty::NS => (ty::A, ty::TXT),
        x if x == ty::TXT => (ty::TXT, ty::A),
        x => (x, ty::TXT),
    };
    let mut v = Vec::new();
    for n in relevant_names(z, q) {
        v.push(Edit::Remove(n.clone()));
        v.push(Edit::SetOnly(n.clone(), tt));
        v.push(Edit::SetOnly(n.clone(), other));
        v.push(Edit::AddType(n.clone(), t));
        if tt != ty::CNAME {
            v.push(Edit::SetOnly(n.clone(), ty::CNAME));
        }
        v.push(Edit::SetDeleg(n.clone(), false));
        v.push(Edit::SetDeleg(n.clone(), true));
    }
    // the apex can only gain a type
    if fold(q) == z.apex && t != ty::DS && t != ty::CNAME {
        v.push(Edit::AddType(z.apex.clone(), t));
    }
    v
}

pub fn show_edit(e: &Edit) -> String {
    match e {
        Edit::Remove(n) => format!("remove {}", refzone::show(n)),
        Edit::SetOnly(n, t) => format!("set {} to only {}", refzone::show(n), refzone::type_name(*t)),
        Edit::AddType(n, t) => format!("add {} at {}", refzone::type_name(*t), refzone::show(n)),
        Edit::SetDeleg(n, s) => format!("make {} a{} delegation", refzone::show(n), if *s { " secure (NS+DS)" } else { "n insecure (NS only)" }),
    }
}

/// One zone within two edits of Z in which the claim is refuted, with the fingerprints of its
/// genuine NSEC3 chain.
pub struct Cand {
    pub edits: Vec<Edit>,
    pub truth: Truth,
    pub chain_fps: Vec<u64>,
}

/// All refuting candidates for one (zone, q, t, claim, parameter group), indexed so that
/// "S ⊆ N3(Z′) for some candidate Z′" is a few bit-set intersections.
pub struct Candidates {
    pub cands: Vec<Cand>,
    index: HashMap<u64, Vec<u64>>,
    words: usize,
    pub singles_tried: usize,
    pub doubles_tried: usize,
}

impl Candidates {
    pub fn build(z: &Zone, q: &[Vec<u8>], t: u16, claim: &Claim, opt_out: bool, hs: &mut Hasher, max_double: usize) -> Candidates {
        let singles = single_edits(z, q, t);
        let mut cands: Vec<Cand> = Vec::new();
        // status[i]: None = edit not applicable to Z, Some(refutes the claim on its own)
        let mut status: Vec<Option<bool>> = vec![None; singles.len()];
        let mut firsts: Vec<(Zone, usize)> = Vec::new();
        let consider = |z2: &Zone, edits: Vec<Edit>, hs: &mut Hasher, cands: &mut Vec<Cand>| -> bool {
            let truth = claim_truth(z2, q, t, claim);
            if truth.refutes() {
                let chain_fps = nsec3_chain(z2, opt_out, hs).iter().map(|r| r.fp()).collect();
                cands.push(Cand { edits, truth, chain_fps });
                true
            } else {
                false
            }
        };
        for (i, e) in singles.iter().enumerate() {
            let Some(z1) = apply(z, e) else { continue };
            status[i] = Some(consider(&z1, vec![e.clone()], hs, &mut cands));
            firsts.push((z1, i));
        }
        let singles_tried = firsts.len();
        // unordered pairs of applicable edits on different names (such edits commute). Pairs with
        // a member that refutes the claim on its own come first: the other edit then only has to
        // keep the presented records genuine.
        let mut doubles_tried = 0usize;
        let name_of = |e: &Edit| match e {
            Edit::Remove(n) | Edit::SetOnly(n, _) | Edit::AddType(n, _) | Edit::SetDeleg(n, _) => n.clone(),
        };
        let names: Vec<Name> = singles.iter().map(name_of).collect();
        'outer: for pass in 0..2 {
            for (z1, i) in &firsts {
                let ri = status[*i] == Some(true);
                for (j, e2) in singles.iter().enumerate() {
                    let Some(rj) = status[j] else { continue };
                    if j == *i || names[j] == names[*i] {
                        continue;
                    }
                    let take = match pass {
                        // refuting first edit; when both refute, i < j only
                        0 => ri && (!rj || *i < j),
                        // neither refutes alone
                        _ => !ri && !rj && *i < j,
                    };
                    if !take {
                        continue;
                    }
                    if doubles_tried >= max_double {
                        break 'outer;
                    }
                    doubles_tried += 1;
                    let Some(z2) = apply(z1, e2) else { continue };
                    consider(&z2, vec![singles[*i].clone(), e2.clone()], hs, &mut cands);
                }
            }
        }
        let words = cands.len().div_ceil(64).max(1);
        let mut index: HashMap<u64, Vec<u64>> = HashMap::new();
        for (ci, c) in cands.iter().enumerate() {
            for fp in &c.chain_fps {
                let e = index.entry(*fp).or_insert_with(|| vec![0u64; words]);
                e[ci / 64] |= 1u64 << (ci % 64);
            }
        }
        Candidates { cands, index, words, singles_tried, doubles_tried }
    }

    /// first candidate whose genuine chain contains every record of `s`
    pub fn find(&self, s_fps: &[u64]) -> Option<&Cand> {
        if self.cands.is_empty() {
            return None;
        }
        let mut acc = vec![u64::MAX; self.words];
        for fp in s_fps {
            let Some(bits) = self.index.get(fp) else { return None };
            for (a, b) in acc.iter_mut().zip(bits.iter()) {
                *a &= *b;
            }
        }
        for (w, a) in acc.iter().enumerate() {
            if *a != 0 {
                let ci = w * 64 + a.trailing_zeros() as usize;
                if ci < self.cands.len() {
                    return Some(&self.cands[ci]);
                }
            }
        }
        None
    }
}

// ---------------------------------------------------------------------------------------------
// self test: RFC 5155 Appendix A (hashes, chain) and Appendix B (which records prove what)

/// RFC 5155 Appendix A example zone (opt-out, salt aabbccdd, 12 iterations) in the reference model
pub fn rfc5155_zone() -> Zone {
    use refzone::{name, rd_a, rd_ds, rd_mx, rd_name, rd_soa, rd_txt};
    let apex = name("example.");
    let mut z = Zone::new(&apex);
    z.add(&apex, ty::SOA, rd_soa(&name("ns1.example."), &name("bugs.x.w.example."), 1, 3600, 300, 3600000, 3600));
    z.add(&apex, ty::NS, rd_name(&name("ns1.example.")));
    z.add(&apex, ty::NS, rd_name(&name("ns2.example.")));
    z.add(&apex, ty::MX, rd_mx(1, &name("xx.example.")));
    z.add(&name("2t7b4g4vsa5smi47k61mv5bv1a22bojr.example."), ty::A, rd_a(127));
    z.add(&name("a.example."), ty::NS, rd_name(&name("ns1.a.example.")));
    z.add(&name("a.example."), ty::NS, rd_name(&name("ns2.a.example.")));
    z.add(&name("a.example."), ty::DS, rd_ds(58470));
    z.add(&name("ns1.a.example."), ty::A, rd_a(5));
    z.add(&name("ns2.a.example."), ty::A, rd_a(6));
    z.add(&name("ai.example."), ty::A, rd_a(9));
    z.add(&name("ai.example."), ty::AAAA, refzone::rd_aaaa(9));
    z.add(&name("c.example."), ty::NS, rd_name(&name("ns1.c.example.")));
    z.add(&name("c.example."), ty::NS, rd_name(&name("ns2.c.example.")));
    z.add(&name("ns1.c.example."), ty::A, rd_a(7));
    z.add(&name("ns2.c.example."), ty::A, rd_a(8));
    z.add(&name("ns1.example."), ty::A, rd_a(1));
    z.add(&name("ns2.example."), ty::A, rd_a(2));
    z.add(&name("*.w.example."), ty::MX, rd_mx(1, &name("ai.example.")));
    z.add(&name("x.w.example."), ty::MX, rd_mx(1, &name("xx.example.")));
    z.add(&name("x.y.w.example."), ty::MX, rd_mx(1, &name("xx.example.")));
    z.add(&name("xx.example."), ty::A, rd_a(10));
    z.add(&name("xx.example."), ty::AAAA, refzone::rd_aaaa(10));
    let _ = rd_txt;
    z
}

/// Panics with a description if the model disagrees with RFC 5155 Appendix A / B.
pub fn selftest() {
    use refzone::name;
    let p = HashParams { salt: vec![0xaa, 0xbb, 0xcc, 0xdd], iterations: 12 };
    let b32 = |n: &str| String::from_utf8(base32hex(&nsec3_hash(&name(n), &p.salt, p.iterations))).unwrap();
    // Appendix A: "H(x)" list
    for (n, h) in [
        ("example.", "0p9mhaveqvm6t7vbl5lop2u3t2rp3tom"),
        ("a.example.", "35mthgpgcu1qg68fab165klnsnk3dpvl"),
        ("ai.example.", "gjeqe526plbf1g8mklp59enfd789njgi"),
        ("ns1.example.", "2t7b4g4vsa5smi47k61mv5bv1a22bojr"),
        ("ns2.example.", "q04jkcevqvmu85r014c7dkba38o0ji5r"),
        ("w.example.", "k8udemvp1j2f7eg6jebps17vp3n8i58h"),
        ("*.w.example.", "r53bq7cc2uvmubfu5ocmm6pers9tk9en"),
        ("x.w.example.", "b4um86eghhds6nea196smvmlo4ors995"),
        ("y.w.example.", "ji6neoaepv8b5o6k4ev33abha8ht9fgc"),
        ("x.y.w.example.", "2vptu5timamqttgl4luu9kg21e0aor3s"),
        ("xx.example.", "t644ebqk9bibcna874givr6joj62mlhv"),
        // upper case hashes like lower case (§5: canonical form)
        ("X.Y.W.EXAMPLE.", "2vptu5timamqttgl4luu9kg21e0aor3s"),
    ] {
        assert_eq!(b32(n), h, "RFC 5155 App. A hash of {n}");
    }
    // RFC 4648 §10 base32hex vectors (lower case, unpadded)
    for (i, o) in [("", ""), ("f", "co"), ("fo", "cpng"), ("foo", "cpnmu"), ("foob", "cpnmuog"), ("fooba", "cpnmuoj1"), ("foobar", "cpnmuoj1e8")] {
        assert_eq!(String::from_utf8(base32hex(i.as_bytes())).unwrap(), o, "base32hex({i})");
    }
    // Appendix A chain: 12 NSEC3 RRs in this order, opt-out, c.example (insecure delegation) left out
    let z = rfc5155_zone();
    let mut hs = Hasher::new(&p);
    let chain = nsec3_chain(&z, true, &mut hs);
    let owners: Vec<String> = chain.iter().map(|r| String::from_utf8(base32hex(&r.hash)).unwrap()[..8].to_string()).collect();
    assert_eq!(
        owners,
        vec!["0p9mhave", "2t7b4g4v", "2vptu5ti", "35mthgpg", "b4um86eg", "gjeqe526", "ji6neoae", "k8udemvp", "kohar7mb", "q04jkcev", "r53bq7cc", "t644ebqk"],
        "RFC 5155 App. A chain owners"
    );
    for (i, r) in chain.iter().enumerate() {
        assert_eq!(r.next, chain[(i + 1) % chain.len()].hash);
    }
    let by = |pre: &str| chain.iter().find(|r| String::from_utf8(base32hex(&r.hash)).unwrap().starts_with(pre)).unwrap();
    let tset = |v: &[u16]| v.iter().copied().collect::<BTreeSet<u16>>();
    assert_eq!(by("0p9mhave").types, tset(&[ty::NS, ty::SOA, ty::MX, T_RRSIG, T_DNSKEY, T_NSEC3PARAM]), "apex bitmap");
    assert_eq!(by("35mthgpg").types, tset(&[ty::NS, ty::DS, T_RRSIG]), "secure delegation bitmap");
    assert_eq!(by("ji6neoae").types, tset(&[]), "empty non-terminal bitmap");
    assert_eq!(by("k8udemvp").types, tset(&[]), "empty non-terminal bitmap");
    assert_eq!(by("r53bq7cc").types, tset(&[ty::MX, T_RRSIG]), "wildcard bitmap");
    // Appendix B: which NSEC3 RRs each response carries
    let proof = |q: &str, c: Claim, hs: &mut Hasher| -> Vec<String> {
        let mut v: Vec<String> = reference_proof(&z, &name(q), &c, true, &chain, hs).iter().map(|i| String::from_utf8(base32hex(&chain[*i].hash)).unwrap()[..8].to_string()).collect();
        v.sort();
        v
    };
    // B.1 name error
    assert_eq!(claim_truth(&z, &name("a.c.x.w.example."), ty::A, &Claim::NxDomain), Truth::True);
    assert_eq!(proof("a.c.x.w.example.", Claim::NxDomain, &mut hs), vec!["0p9mhave", "35mthgpg", "b4um86eg"], "B.1");
    // B.2 no data, B.2.1 empty non-terminal
    assert_eq!(claim_truth(&z, &name("ns1.example."), ty::MX, &Claim::NoData), Truth::True);
    assert_eq!(proof("ns1.example.", Claim::NoData, &mut hs), vec!["2t7b4g4v"], "B.2");
    assert_eq!(claim_truth(&z, &name("y.w.example."), ty::A, &Claim::NoData), Truth::True);
    assert_eq!(proof("y.w.example.", Claim::NoData, &mut hs), vec!["ji6neoae"], "B.2.1");
    // B.3 referral to an opt-out unsigned zone = DS absence at c.example by closest encloser + opt-out cover
    assert_eq!(claim_truth(&z, &name("c.example."), ty::DS, &Claim::NoData), Truth::True);
    assert_eq!(proof("c.example.", Claim::NoData, &mut hs), vec!["0p9mhave", "35mthgpg"], "B.3");
    assert!(matches!(claim_truth(&z, &name("mc.c.example."), ty::MX, &Claim::NxDomain), Truth::NotEntailable(_)));
    // B.4 wildcard expansion, B.5 wildcard no data
    assert_eq!(claim_truth(&z, &name("a.z.w.example."), ty::MX, &Claim::Expansion { labels: 2 }), Truth::True);
    assert_eq!(proof("a.z.w.example.", Claim::Expansion { labels: 2 }, &mut hs), vec!["q04jkcev"], "B.4");
    assert_eq!(claim_truth(&z, &name("a.z.w.example."), ty::AAAA, &Claim::NoData), Truth::True);
    assert_eq!(proof("a.z.w.example.", Claim::NoData, &mut hs), vec!["k8udemvp", "q04jkcev", "r53bq7cc"], "B.5");
    assert!(matches!(claim_truth(&z, &name("a.z.w.example."), ty::MX, &Claim::NoData), Truth::False("type-present")));
    assert!(matches!(claim_truth(&z, &name("a.z.w.example."), ty::MX, &Claim::NxDomain), Truth::False("wildcard-exists")));
    // B.6 DS child zone no data (DS at the apex: matching record is what the server sends)
    assert_eq!(proof("example.", Claim::NoData, &mut hs), vec!["0p9mhave"], "B.6");
    // every reference proof is complete by `roles` and admits no counter-model
    for (q, t, c) in [
        ("a.c.x.w.example.", ty::A, Claim::NxDomain),
        ("ns1.example.", ty::MX, Claim::NoData),
        ("y.w.example.", ty::A, Claim::NoData),
        ("a.z.w.example.", ty::AAAA, Claim::NoData),
    ] {
        let idx = reference_proof(&z, &name(q), &c, true, &chain, &mut hs);
        let s: Vec<&N3> = idx.iter().map(|i| &chain[*i]).collect();
        let r = roles(&z, &name(q), t, &c, true, &s, &mut hs);
        assert!(r.complete(), "roles of the reference proof for {q}: missing {}", r.missing());
        let cands = Candidates::build(&z, &name(q), t, &c, true, &mut hs, 400);
        let fps: Vec<u64> = s.iter().map(|r| r.fp()).collect();
        if c == Claim::NxDomain {
            // the App. B.1 proof has an opt-out record covering the next closer name: it does
            // not exclude an insecure delegation there (§6, §9.2)
            let cm = cands.find(&fps).expect("opt-out NXDOMAIN proof admits an insecure delegation");
            assert!(cm.edits.iter().any(|e| matches!(e, Edit::SetDeleg(_, false))), "{:?}", cm.edits);
        } else if c == Claim::NoData && q == "a.z.w.example." {
            assert!(cands.find(&fps).is_some(), "opt-out wildcard-NODATA proof admits an insecure delegation");
        } else {
            assert!(cands.find(&fps).is_none(), "reference proof for {q} has a counter-model: {:?}", cands.find(&fps).map(|c| c.edits.clone()));
        }
    }
    // the same zone without opt-out: complete proofs have no counter-model
    let chain2 = nsec3_chain(&z, false, &mut hs);
    assert_eq!(chain2.len(), 13, "without opt-out c.example gets an NSEC3 RR");
    for (q, t, c) in [("a.c.x.w.example.", ty::A, Claim::NxDomain), ("a.z.w.example.", ty::AAAA, Claim::NoData), ("a.z.w.example.", ty::MX, Claim::Expansion { labels: 2 })] {
        let idx = reference_proof(&z, &name(q), &c, false, &chain2, &mut hs);
        let fps: Vec<u64> = idx.iter().map(|i| chain2[*i].fp()).collect();
        let cands = Candidates::build(&z, &name(q), t, &c, false, &mut hs, 100_000);
        assert!(cands.find(&fps).is_none(), "non-opt-out reference proof for {q} has a counter-model: {:?}", cands.find(&fps).map(|c| c.edits.clone()));
        if c == Claim::NxDomain {
            // without the record covering the wildcard nothing excludes *.x.w.example
            let hw = hs.h(&name("*.x.w.example."));
            let part: Vec<u64> = idx.iter().map(|i| &chain2[*i]).filter(|r| !r.covers(&hw)).map(|r| r.fp()).collect();
            assert_eq!(part.len(), 2);
            let cm = cands.find(&part).expect("B.1 minus the wildcard cover must have a counter-model");
            assert!(cm.edits.iter().any(|e| matches!(e, Edit::SetOnly(n, _) if *n == name("*.x.w.example."))), "{:?}", cm.edits);
        }
    }
}
