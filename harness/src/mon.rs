//! Monitors and bookkeeping shared by every property binary:
//! command line, panic monitor, counters, distinct-case set, samples, violation witnesses,
//! must-observe thresholds and the shard summary consumed by the python driver.

use std::cell::RefCell;
use std::collections::{BTreeMap, HashSet};
use std::fs;
use std::io::Write;
use std::panic::{self, AssertUnwindSafe};
use std::path::PathBuf;
use std::time::Instant;

use serde_json::{json, Value};

use crate::prng::{fnv64, Rng};

#[derive(Clone, Copy, Debug, PartialEq, Eq)]
pub enum Tier {
    Quick,
    Thorough,
}

#[derive(Clone, Debug)]
pub struct Ctx {
    pub prop: String,
    pub tier: Tier,
    pub seed: u64,
    pub shard: u64,
    pub nshards: u64,
    pub out: PathBuf,
    pub replay: Option<PathBuf>,
    /// multiplies every workload budget (driver passes VERIF_SCALE; default 1.0)
    pub scale: f64,
    /// free-form extra args (key=value)
    pub extra: BTreeMap<String, String>,
}

impl Ctx {
    pub fn from_args(prop: &str) -> Ctx {
        let mut ctx = Ctx {
            prop: prop.to_string(),
            tier: Tier::Quick,
            seed: 1,
            shard: 0,
            nshards: 1,
            out: PathBuf::from("."),
            replay: None,
            scale: 1.0,
            extra: BTreeMap::new(),
        };
        let args: Vec<String> = std::env::args().skip(1).collect();
        let mut i = 0;
        while i < args.len() {
            let a = &args[i];
            let mut val = || {
                i += 1;
                args.get(i).cloned().unwrap_or_else(|| {
                    eprintln!("missing value for {a}");
                    std::process::exit(3)
                })
            };
            match a.as_str() {
                "--tier" => {
                    ctx.tier = match val().as_str() {
                        "quick" => Tier::Quick,
                        "thorough" => Tier::Thorough,
                        t => {
                            eprintln!("bad tier {t}");
                            std::process::exit(3)
                        }
                    }
                }
                "--seed" => ctx.seed = val().parse().expect("seed"),
                "--shard" => ctx.shard = val().parse().expect("shard"),
                "--nshards" => ctx.nshards = val().parse().expect("nshards"),
                "--out" => ctx.out = PathBuf::from(val()),
                "--replay" => ctx.replay = Some(PathBuf::from(val())),
                "--scale" => ctx.scale = val().parse().expect("scale"),
                other => {
                    if let Some((k, v)) = other.trim_start_matches("--").split_once('=') {
                        ctx.extra.insert(k.to_string(), v.to_string());
                    } else {
                        eprintln!("unknown argument {other}");
                        std::process::exit(3);
                    }
                }
            }
            i += 1;
        }
        let _ = fs::create_dir_all(&ctx.out);
        ctx
    }

    pub fn rng(&self, label: &str) -> Rng {
        let tier = match self.tier {
            Tier::Quick => 0x51,
            Tier::Thorough => 0x7403,
        };
        Rng::from_parts(self.seed ^ (tier << 40), &format!("{}/{}", self.prop, label), self.shard)
    }

    /// Per-shard share of a workload whose total size is `quick` or `thorough` cases.
    pub fn budget(&self, quick: u64, thorough: u64) -> u64 {
        let total = match self.tier {
            Tier::Quick => quick,
            Tier::Thorough => thorough,
        } as f64
            * self.scale;
        ((total / self.nshards as f64).ceil() as u64).max(1)
    }

    pub fn is_thorough(&self) -> bool {
        self.tier == Tier::Thorough
    }

    /// This shard's slice of an index range 0..n (round-robin).
    pub fn mine(&self, i: u64) -> bool {
        i % self.nshards == self.shard
    }

    pub fn replay_case(&self) -> Option<Value> {
        let p = self.replay.as_ref()?;
        let txt = fs::read_to_string(p).unwrap_or_else(|e| {
            eprintln!("cannot read replay file {}: {e}", p.display());
            std::process::exit(3)
        });
        let v: Value = serde_json::from_str(&txt).unwrap_or_else(|e| {
            eprintln!("bad replay file: {e}");
            std::process::exit(3)
        });
        Some(v)
    }
}

// ---------------------------------------------------------------------------------------------
// panic monitor

thread_local! {
    static LAST_PANIC: RefCell<Option<PanicRecord>> = const { RefCell::new(None) };
    static QUIET: RefCell<bool> = const { RefCell::new(false) };
}

#[derive(Clone, Debug)]
pub struct PanicRecord {
    pub message: String,
    pub location: String,
}

impl PanicRecord {
    pub fn is_step_limit(&self) -> bool {
        self.message.contains("hickory_dns_verif: decoder step limit exceeded")
    }
    /// location with the line number stripped (stable signature)
    pub fn site(&self) -> String {
        let mut parts = self.location.split(':');
        let file = parts.next().unwrap_or("");
        // path below the repository root, wherever the tree under test lives (/repo or a VERIF_REPO worktree)
        let file = match file.find("/crates/") {
            Some(i) => &file[i + 1..],
            None => file.strip_prefix("/repo/").unwrap_or(file),
        };
        file.to_string()
    }
}

/// Install the process-wide panic hook. Panics inside `catch` are recorded silently; panics
/// elsewhere (harness bugs) print as usual.
pub fn install_panic_monitor() {
    let default = panic::take_hook();
    panic::set_hook(Box::new(move |info| {
        let message = if let Some(s) = info.payload().downcast_ref::<&str>() {
            (*s).to_string()
        } else if let Some(s) = info.payload().downcast_ref::<String>() {
            s.clone()
        } else {
            "<non-string panic payload>".to_string()
        };
        let location = info
            .location()
            .map(|l| format!("{}:{}:{}", l.file(), l.line(), l.column()))
            .unwrap_or_default();
        LAST_PANIC.with(|p| *p.borrow_mut() = Some(PanicRecord { message, location }));
        if !QUIET.with(|q| *q.borrow()) {
            default(info);
        }
    }));
}

/// Run `f`, converting a panic into `Err(PanicRecord)`.
pub fn catch<T>(f: impl FnOnce() -> T) -> Result<T, PanicRecord> {
    QUIET.with(|q| *q.borrow_mut() = true);
    LAST_PANIC.with(|p| *p.borrow_mut() = None);
    let r = panic::catch_unwind(AssertUnwindSafe(f));
    QUIET.with(|q| *q.borrow_mut() = false);
    match r {
        Ok(v) => Ok(v),
        Err(_) => Err(LAST_PANIC.with(|p| p.borrow_mut().take()).unwrap_or(PanicRecord {
            message: "<unknown>".into(),
            location: String::new(),
        })),
    }
}

/// Mark the current thread as quiet for panics (for panics that unwind through async tasks on
/// the same thread and are caught by the runtime, e.g. tokio JoinHandle).
pub fn set_quiet(q: bool) {
    QUIET.with(|x| *x.borrow_mut() = q);
}
pub fn take_last_panic() -> Option<PanicRecord> {
    LAST_PANIC.with(|p| p.borrow_mut().take())
}

// ---------------------------------------------------------------------------------------------
// reporter

const MAX_DISTINCT: usize = 5_000_000;
const MAX_WITNESS_PER_SIG: u64 = 3;

pub struct Reporter {
    ctx: Ctx,
    start: Instant,
    evaluations: u64,
    distinct: HashSet<u64>,
    distinct_saturated: bool,
    counters: BTreeMap<String, u64>,
    maxima: BTreeMap<String, f64>,
    musts: BTreeMap<String, u64>,
    samples: Vec<Value>,
    sample_seen: u64,
    sample_rng: Rng,
    violations: Vec<Value>,
    per_sig: BTreeMap<String, u64>,
    inconclusive: Vec<String>,
    notes: BTreeMap<String, Value>,
}

impl Reporter {
    pub fn new(ctx: &Ctx) -> Self {
        Self {
            ctx: ctx.clone(),
            start: Instant::now(),
            evaluations: 0,
            distinct: HashSet::new(),
            distinct_saturated: false,
            counters: BTreeMap::new(),
            maxima: BTreeMap::new(),
            musts: BTreeMap::new(),
            samples: Vec::new(),
            sample_seen: 0,
            sample_rng: ctx.rng("samples"),
            violations: Vec::new(),
            per_sig: BTreeMap::new(),
            inconclusive: Vec::new(),
            notes: BTreeMap::new(),
        }
    }

    pub fn ctx(&self) -> &Ctx {
        &self.ctx
    }

    /// one oracle evaluation
    pub fn eval(&mut self) {
        self.evaluations += 1;
    }
    pub fn evals(&mut self, n: u64) {
        self.evaluations += n;
    }

    /// a non-trivial case, identified by a hash of its canonical encoding
    pub fn nontrivial(&mut self, hash: u64) {
        if self.distinct.len() < MAX_DISTINCT {
            self.distinct.insert(hash);
        } else {
            self.distinct_saturated = true;
        }
    }
    pub fn nontrivial_bytes(&mut self, bytes: &[u8]) {
        self.nontrivial(fnv64(bytes));
    }

    pub fn count(&mut self, name: &str) {
        self.add(name, 1);
    }
    pub fn add(&mut self, name: &str, n: u64) {
        if let Some(c) = self.counters.get_mut(name) {
            *c += n;
        } else {
            self.counters.insert(name.to_string(), n);
        }
    }
    pub fn get(&self, name: &str) -> u64 {
        self.counters.get(name).copied().unwrap_or(0)
    }
    pub fn max(&mut self, name: &str, v: f64) {
        let e = self.maxima.entry(name.to_string()).or_insert(f64::MIN);
        if v > *e {
            *e = v;
        }
    }

    /// Declare that counter `name` must reach `min` (summed over all shards) for the run to be
    /// conclusive.
    pub fn must(&mut self, name: &str, min: u64) {
        self.musts.insert(name.to_string(), min);
        self.counters.entry(name.to_string()).or_insert(0);
    }

    /// keep a few real cases (reservoir of 4)
    pub fn sample(&mut self, f: impl FnOnce() -> Value) {
        self.sample_seen += 1;
        if self.samples.len() < 4 {
            self.samples.push(f());
        } else if self.sample_seen < 1_000_000 && self.sample_rng.below(self.sample_seen) < 1 {
            let i = self.sample_rng.usize_below(4);
            self.samples[i] = f();
        }
    }

    pub fn note(&mut self, key: &str, v: Value) {
        self.notes.insert(key.to_string(), v);
    }

    pub fn inconclusive(&mut self, reason: &str) {
        if !self.inconclusive.iter().any(|r| r == reason) {
            self.inconclusive.push(reason.to_string());
        }
    }

    pub fn violations(&self) -> usize {
        self.violations.len()
    }

    /// Crash breadcrumb. A process abort of the code under test (stack overflow, allocation failure,
    /// abort()) escapes `catch_unwind` and takes the shard with it. When the driver sees a shard die by
    /// a signal it re-runs that shard (same seed, so the same cases) with `--breadcrumb=1`; only then
    /// does this call do anything: it writes the self-contained case that is about to run to
    /// `<out>/shard-<i>.current.json`, so the driver knows which case killed the process, replays it in
    /// isolation and reports it as a violation if the replay dies too. No-op (one branch) otherwise.
    pub fn breadcrumb(&mut self, case: impl FnOnce() -> Value) {
        if !self.ctx.extra.contains_key("breadcrumb") {
            return;
        }
        let w = json!({
            "property": self.ctx.prop,
            "rule": "process-abort",
            "sig": "?",
            "seed": self.ctx.seed,
            "shard": self.ctx.shard,
            "case": case(),
            "expected": "the call returns (a value, an error or a caught panic)",
            "observed": "the process was still inside this case when it died",
        });
        let p = self.ctx.out.join(format!("shard-{}.current.json", self.ctx.shard));
        let _ = fs::write(&p, serde_json::to_string(&w).unwrap());
    }

    /// Record a violation. `rule` = oracle rule id, `sig` = structural discriminator (together
    /// they form the finding signature). `case` must be self-contained (replayable).
    pub fn violation(&mut self, rule: &str, sig: &str, case: Value, expected: Value, observed: Value) {
        let key = format!("{rule}|{sig}");
        let n = self.per_sig.entry(key.clone()).or_insert(0);
        *n += 1;
        let mut file = Value::Null;
        if *n <= MAX_WITNESS_PER_SIG {
            let w = json!({
                "property": self.ctx.prop,
                "rule": rule,
                "sig": sig,
                "seed": self.ctx.seed,
                "tier": match self.ctx.tier { Tier::Quick => "quick", Tier::Thorough => "thorough" },
                "shard": self.ctx.shard,
                "case": case,
                "expected": expected,
                "observed": observed,
            });
            let txt = serde_json::to_string_pretty(&w).unwrap();
            let h = fnv64(txt.as_bytes());
            let p = self.ctx.out.join(format!("viol-{}-{:016x}.json", self.ctx.shard, h));
            if let Ok(mut f) = fs::File::create(&p) {
                let _ = f.write_all(txt.as_bytes());
            }
            file = Value::String(p.display().to_string());
        }
        // every occurrence that has a witness file is listed (bounded by signatures x MAX_WITNESS_PER_SIG), so
        // that a rare signature first seen after many others still reaches the driver with its replay path
        if !file.is_null() || self.violations.len() < 10_000 {
            self.violations.push(json!({"rule": rule, "sig": sig, "file": file}));
        }
    }

    /// Write the shard summary. Returns the process exit code (0 fine, 1 violations seen —
    /// the driver decides about known findings, so this is informational only).
    pub fn finish(self) -> i32 {
        let mut d: Vec<u64> = self.distinct.iter().copied().collect();
        d.sort_unstable();
        let dpath = self.ctx.out.join(format!("shard-{}.distinct", self.ctx.shard));
        {
            let mut buf = Vec::with_capacity(d.len() * 8);
            for x in &d {
                buf.extend_from_slice(&x.to_le_bytes());
            }
            let _ = fs::write(&dpath, buf);
        }
        let mut per_sig = serde_json::Map::new();
        for (k, v) in &self.per_sig {
            per_sig.insert(k.clone(), json!(v));
        }
        let summary = json!({
            "property": self.ctx.prop,
            "shard": self.ctx.shard,
            "nshards": self.ctx.nshards,
            "seed": self.ctx.seed,
            "evaluations": self.evaluations,
            "distinct_file": dpath.display().to_string(),
            "distinct_local": d.len(),
            "distinct_saturated": self.distinct_saturated,
            "counters": self.counters,
            "maxima": self.maxima,
            "musts": self.musts,
            "samples": self.samples,
            "violations": self.violations,
            "violations_per_sig": per_sig,
            "inconclusive": self.inconclusive,
            "notes": self.notes,
            "wall_s": self.start.elapsed().as_secs_f64(),
        });
        let spath = self.ctx.out.join(format!("shard-{}.summary.json", self.ctx.shard));
        fs::write(&spath, serde_json::to_string(&summary).unwrap()).expect("write summary");
        if self.per_sig.is_empty() {
            0
        } else {
            1
        }
    }
}

impl Reporter {
    /// End of a replay run: print one line per reproduced signature and exit 1 if any, else 0.
    pub fn replay_finish(self) -> ! {
        let prop = self.ctx.prop.clone();
        let sigs: Vec<String> = self.per_sig.keys().cloned().collect();
        let _ = self.finish();
        if sigs.is_empty() {
            println!("REPLAY property={prop} reproduced=0");
            std::process::exit(0)
        }
        for k in sigs {
            let (rule, sig) = k.split_once('|').unwrap_or((&k, ""));
            println!("REPLAY property={prop} reproduced=1 rule={rule} sig={sig}");
        }
        std::process::exit(1)
    }
}

/// Outcome of a replay run: prints a machine-readable line for the driver and exits.
pub fn replay_exit(prop: &str, reproduced: Option<(String, String)>) -> ! {
    match reproduced {
        Some((rule, sig)) => {
            println!("REPLAY property={prop} reproduced=1 rule={rule} sig={sig}");
            std::process::exit(1)
        }
        None => {
            println!("REPLAY property={prop} reproduced=0");
            std::process::exit(0)
        }
    }
}

pub fn hex(b: &[u8]) -> String {
    let mut s = String::with_capacity(b.len() * 2);
    for x in b {
        s.push_str(&format!("{x:02x}"));
    }
    s
}

pub fn unhex(s: &str) -> Vec<u8> {
    let s = s.as_bytes();
    let mut v = Vec::with_capacity(s.len() / 2);
    let d = |c: u8| match c {
        b'0'..=b'9' => c - b'0',
        b'a'..=b'f' => c - b'a' + 10,
        b'A'..=b'F' => c - b'A' + 10,
        _ => 0,
    };
    let mut i = 0;
    while i + 1 < s.len() {
        v.push(d(s[i]) << 4 | d(s[i + 1]));
        i += 2;
    }
    v
}
