//! Independent judgement: territory of a server (what it may legitimately speak for), address
//! filters (plain prefix match), marker extraction from hickory records.

use std::collections::BTreeSet;
use std::net::IpAddr;

use hickory_proto::rr::{RData, Record};

use crate::world::{is_sub, lower, marker_of_ip, marker_of_name, World};

/// Apexes of every zone the server at `ip` can legitimately influence:
///  * zones it serves or that any delegation data in the world designates it for,
///  * their descendants (the parent controls the delegation),
///  * zones with a name-server *name* inside an already controlled zone (whoever controls the
///    name controls the address it resolves to), transitively.
/// A record whose owner is below one of these apexes is *in bailiwick* for the server; the
/// oracle only ever raises an alarm for owners outside all of them.
pub fn territory(world: &World, ip: &str) -> Vec<String> {
    let all_recs = || world.zones.iter().flat_map(|z| z.recs.iter());
    let mut apexes: BTreeSet<String> = world.zones.iter().map(|z| z.apex.clone()).collect();
    for r in all_recs() {
        if r.rtype == "NS" {
            apexes.insert(r.owner.clone());
        }
    }
    let ns_names = |apex: &str| -> Vec<String> { all_recs().filter(|r| r.rtype == "NS" && r.owner == apex).map(|r| r.data.clone()).collect() };
    let addrs = |name: &str| -> Vec<String> { all_recs().filter(|r| (r.rtype == "A" || r.rtype == "AAAA") && r.owner == name).map(|r| r.data.clone()).collect() };

    let mut ctrl: BTreeSet<String> = BTreeSet::new();
    if let Some(s) = world.server(ip) {
        ctrl.extend(s.zones.iter().cloned());
        if !s.ladder.is_empty() {
            ctrl.insert(s.ladder.clone());
        }
    }
    for a in &apexes {
        if ns_names(a).iter().any(|n| addrs(n).iter().any(|x| x == ip)) {
            ctrl.insert(a.clone());
        }
    }
    loop {
        let mut added = false;
        for a in &apexes {
            if ctrl.contains(a) {
                continue;
            }
            let below = ctrl.iter().any(|c| is_sub(a, c));
            let ns_inside = ns_names(a).iter().any(|n| ctrl.iter().any(|c| is_sub(n, c)));
            if below || ns_inside {
                ctrl.insert(a.clone());
                added = true;
            }
        }
        if !added {
            break;
        }
    }
    ctrl.into_iter().collect()
}

pub fn in_territory(name: &str, terr: &[String]) -> bool {
    terr.iter().any(|a| is_sub(name, a))
}

// ---------------------------------------------------------------------------------------------
// address filters: denied = inside some deny net and inside no allow net

fn parse_net(s: &str) -> Option<(IpAddr, u8)> {
    let (a, p) = s.split_once('/')?;
    Some((a.parse().ok()?, p.parse().ok()?))
}

fn bits(ip: &IpAddr) -> (u128, u8) {
    match ip {
        IpAddr::V4(a) => (u32::from_be_bytes(a.octets()) as u128, 32),
        IpAddr::V6(a) => (u128::from_be_bytes(a.octets()), 128),
    }
}

pub fn in_net(ip: &IpAddr, net: &str) -> bool {
    let Some((base, plen)) = parse_net(net) else { return false };
    let (a, wa) = bits(ip);
    let (b, wb) = bits(&base);
    if wa != wb || plen > wa {
        return false;
    }
    if plen == 0 {
        return true;
    }
    let shift = (wa - plen) as u32;
    (a >> shift) == (b >> shift)
}

pub fn denied(ip: &IpAddr, deny: &[String], allow: &[String]) -> bool {
    deny.iter().any(|n| in_net(ip, n)) && !allow.iter().any(|n| in_net(ip, n))
}

/// Filter class of an address under the configured filters (independent prefix arithmetic):
///  * `both-deny`  excluded by the answer filter and by the server filter
///  * `ans-deny`   excluded by the answer filter only (the server filter would let it be contacted)
///  * `srv-deny`   excluded by the server filter only, in a world that also configures an answer
///                 filter which permits it (deny_server != deny_answers)
///  * `ans-allow`  inside a deny_answers net but rescued by allow_answers (permitted)
///  * `plain`      everything else
pub fn addr_class(ip: &IpAddr, o: &crate::world::Opts) -> &'static str {
    let ad = denied(ip, &o.deny_answers, &o.allow_answers);
    let sd = denied(ip, &o.deny_server, &o.allow_server);
    if ad && sd {
        "both-deny"
    } else if ad {
        "ans-deny"
    } else if sd && !o.deny_answers.is_empty() {
        "srv-deny"
    } else if !sd && o.deny_answers.iter().any(|n| in_net(ip, n)) {
        "ans-allow"
    } else {
        "plain"
    }
}

pub const AF_CLASSES: &[&str] = &["ans-deny", "ans-allow", "srv-deny", "both-deny"];

// ---------------------------------------------------------------------------------------------
// views of hickory records

pub struct Seen {
    pub owner: String,
    pub rtype: String,
    pub data: String,
    pub ip: Option<IpAddr>,
    pub marker: Option<u32>,
}

pub fn see(r: &Record) -> Seen {
    let owner = lower(&r.name.to_ascii());
    let rtype = r.record_type().to_string();
    let (data, ip, marker) = match &r.data {
        RData::A(a) => {
            let ip = IpAddr::V4(a.0);
            (ip.to_string(), Some(ip), marker_of_ip(&ip))
        }
        RData::AAAA(a) => {
            let ip = IpAddr::V6(a.0);
            (ip.to_string(), Some(ip), marker_of_ip(&ip))
        }
        RData::NS(n) => {
            let t = lower(&n.0.to_ascii());
            let m = marker_of_name(&t);
            (t, None, m)
        }
        RData::CNAME(n) => {
            let t = lower(&n.0.to_ascii());
            let m = marker_of_name(&t);
            (t, None, m)
        }
        other => (format!("{other}"), None, None),
    };
    Seen { owner, rtype, data, ip, marker }
}

pub fn text(r: &Record) -> String {
    let s = see(r);
    format!("{} {} {}", s.owner, s.rtype, s.data)
}
