//! C01 — wire decoding is total: any bytes give Ok or Err, never a panic or hang; work is linear
//! in the input length (decoder step monitor H1); no decoded name above 255 / label above 63.

use std::net::SocketAddr;

use hickory_net::xfer::Protocol;
use hickory_proto::op::{DnsResponse, Header, Message, MessageRequest, Queries};
use hickory_proto::rr::rdata::tsig::TsigAlgorithm;
use hickory_proto::rr::{Name, RData, Record, RecordType, TSigner};
use hickory_proto::serialize::binary::{decoder_verif, BinDecodable, BinDecoder};
use hickory_server::server::Request;
use serde_json::json;

use vh::gen::{self, MsgOpts, WireBuilder};
use vh::hk;
use vh::mon::{self, hex, unhex, Ctx, Reporter};
use vh::prng::{fnv64, Rng};
use vh::refwire::{self, WHeader};

const STEP_SLOPE: u64 = 128;
const STEP_CONST: u64 = 4096;

fn step_budget(len: usize) -> u64 {
    STEP_SLOPE * len as u64 + STEP_CONST
}

#[derive(Default)]
struct Outcome {
    ok: bool,
    err: String,
    bad_name: Option<String>,
}

fn err_kind(e: &dyn std::fmt::Debug) -> String {
    let s = format!("{e:?}");
    let end = s.find(|c: char| !(c.is_alphanumeric() || c == '_')).unwrap_or(s.len());
    let k = &s[..end];
    if k.is_empty() {
        "Other".to_string()
    } else {
        k.to_string()
    }
}

fn names_ok<'a>(names: impl IntoIterator<Item = &'a Name>) -> Option<String> {
    for n in names {
        if let Some(v) = hk::name_limit_violation(n) {
            return Some(v);
        }
    }
    None
}

fn src() -> SocketAddr {
    "192.0.2.9:5353".parse().unwrap()
}

fn tsigner() -> TSigner {
    TSigner::new(b"0123456789abcdef0123456789abcdef".to_vec(), TsigAlgorithm::HmacSha256, Name::from_ascii("key.example.").unwrap(), 300).unwrap()
}

/// Message-level entry points.
const MSG_EPS: &[&str] = &["message", "request", "request_split", "response", "tsig_first", "tsig_chained"];

fn run_msg_ep(ep: &str, b: &[u8]) -> Outcome {
    match ep {
        "message" => match Message::from_vec(b) {
            Ok(m) => Outcome { ok: true, bad_name: names_ok(hk::message_names(&m)), ..Default::default() },
            Err(e) => Outcome { err: err_kind(&e), ..Default::default() },
        },
        "request" => match Request::from_bytes(b.to_vec(), src(), Protocol::Udp) {
            Ok(r) => {
                let mut names: Vec<&Name> = Vec::new();
                for rec in r.answers.iter().chain(r.authorities.iter()).chain(r.additionals.iter()) {
                    names.extend(hk::record_names(rec));
                }
                let qn: Name = r.queries.name().into();
                let bad = names_ok(names).or_else(|| hk::name_limit_violation(&qn));
                Outcome { ok: true, bad_name: bad, ..Default::default() }
            }
            Err(e) => Outcome { err: err_kind(&e), ..Default::default() },
        },
        "request_split" => {
            let mut d = BinDecoder::new(b);
            let r = (|| {
                let header = Header::read(&mut d)?;
                let queries = Queries::read(&mut d, header.counts.queries as usize)?;
                MessageRequest::read_with_queries(&mut d, queries, header)
            })();
            match r {
                Ok(_) => Outcome { ok: true, ..Default::default() },
                Err(e) => Outcome { err: err_kind(&e), ..Default::default() },
            }
        }
        "response" => match DnsResponse::from_buffer(b.to_vec()) {
            Ok(m) => Outcome { ok: true, bad_name: names_ok(hk::message_names(&m)), ..Default::default() },
            Err(e) => Outcome { err: err_kind(&e), ..Default::default() },
        },
        "tsig_first" => match tsigner().verify_message_byte(b, None, true) {
            Ok(_) => Outcome { ok: true, ..Default::default() },
            Err(e) => Outcome { err: err_kind(&e), ..Default::default() },
        },
        "tsig_chained" => match tsigner().verify_message_byte(b, Some(&[7u8; 32]), false) {
            Ok(_) => Outcome { ok: true, ..Default::default() },
            Err(e) => Outcome { err: err_kind(&e), ..Default::default() },
        },
        _ => unreachable!(),
    }
}

fn run_record_at(b: &[u8], off: usize) -> Outcome {
    if off > b.len() || off > u16::MAX as usize {
        return Outcome { err: "skip".into(), ..Default::default() };
    }
    let mut d = BinDecoder::new(b).clone(off as u16);
    match Record::<RData>::read(&mut d) {
        Ok(r) => Outcome { ok: true, bad_name: names_ok(hk::record_names(&r)), ..Default::default() },
        Err(e) => Outcome { err: err_kind(&e), ..Default::default() },
    }
}

fn run_name_at(b: &[u8], off: usize) -> Outcome {
    if off > b.len() || off > u16::MAX as usize {
        return Outcome { err: "skip".into(), ..Default::default() };
    }
    let mut d = BinDecoder::new(b).clone(off as u16);
    match Name::read(&mut d) {
        Ok(n) => Outcome { ok: true, bad_name: hk::name_limit_violation(&n), ..Default::default() },
        Err(e) => Outcome { err: err_kind(&e), ..Default::default() },
    }
}

/// RDATA of `rt` located at b[off..off+len], with the whole of b[..off+len] visible for pointers
fn run_rdata(b: &[u8], off: usize, len: usize, rt: RecordType) -> Outcome {
    if off + len > b.len() || off > u16::MAX as usize {
        return Outcome { err: "skip".into(), ..Default::default() };
    }
    let mut d = BinDecoder::new(b).clone(off as u16);
    let Ok(sub) = d.split_off(len) else {
        return Outcome { err: "skip".into(), ..Default::default() };
    };
    match RData::read(sub, rt) {
        Ok(r) => Outcome { ok: true, bad_name: names_ok(hk::names_in_rdata(&r)), ..Default::default() },
        Err(e) => Outcome { err: err_kind(&e), ..Default::default() },
    }
}

struct Checker<'a> {
    rep: &'a mut Reporter,
    replay_hit: Option<(String, String)>,
}

impl Checker<'_> {
    /// Run one entry point under the panic and step monitors and judge it.
    fn guarded(&mut self, ep: &str, b: &[u8], detail: serde_json::Value, f: impl FnOnce() -> Outcome) {
        let budget = step_budget(b.len());
        self.rep.breadcrumb(|| json!({"entry": ep, "detail": detail.clone(), "hex": hex(b)}));
        decoder_verif::reset(budget * 4);
        let t0 = std::time::Instant::now();
        let r = mon::catch(f);
        let dt = t0.elapsed();
        let steps = decoder_verif::steps();
        decoder_verif::reset(u64::MAX);
        self.rep.eval();
        self.rep.add("hook_h1_steps", steps);
        if !b.is_empty() {
            self.rep.max("max_steps_per_byte", steps as f64 / b.len().max(64) as f64);
            self.rep.max("max_ns_per_byte", dt.as_nanos() as f64 / b.len().max(64) as f64);
        }
        let case = || json!({"entry": ep, "detail": detail.clone(), "hex": hex(b)});
        match r {
            Ok(o) => {
                if o.err == "skip" {
                    return;
                }
                let key = if o.ok { format!("{ep}:Ok") } else { format!("{ep}:Err:{}", o.err) };
                self.rep.count(&format!("outcome/{key}"));
                if let Some(bad) = o.bad_name {
                    self.fail("name-limit", &ep_group(ep), case(), json!("every decoded name ≤255 octets, label ≤63"), json!(bad));
                }
                if steps > budget {
                    let sig = format!("{}|{}", ep_group(ep), shape_class(b));
                    self.fail(
                        "steps-not-linear",
                        &sig,
                        case(),
                        json!(format!("decoder steps ≤ {STEP_SLOPE}·len+{STEP_CONST} = {budget}")),
                        json!({"steps": steps, "len": b.len()}),
                    );
                }
            }
            Err(p) => {
                if p.is_step_limit() {
                    let sig = format!("{}|{}", ep_group(ep), shape_class(b));
                    self.fail(
                        "steps-not-linear",
                        &sig,
                        case(),
                        json!(format!("decoder steps ≤ {STEP_SLOPE}·len+{STEP_CONST} = {budget}")),
                        json!({"steps": format!(">{}", budget * 4), "len": b.len()}),
                    );
                } else {
                    let sig = format!("{}|{}", ep_group(ep), p.site());
                    self.fail("panic", &sig, case(), json!("Ok or Err"), json!({"panic": p.message, "at": p.location}));
                }
            }
        }
    }

    fn fail(&mut self, rule: &str, sig: &str, case: serde_json::Value, exp: serde_json::Value, obs: serde_json::Value) {
        self.replay_hit = Some((rule.to_string(), sig.to_string()));
        self.rep.violation(rule, sig, case, exp, obs);
    }

    fn check_message_bytes(&mut self, b: &[u8], rng: &mut Rng, all_rdata: bool) {
        if b.len() > 12 {
            self.rep.nontrivial(fnv64(b));
        }
        // The TSIG verifier is only ever handed bytes that already passed the full message parse
        // (DnsMultiplexer / UdpClientStream parse with DnsResponse::from_buffer first; the server
        // parses the Request first), so it is driven under the same precondition here.
        let parses = mon::catch(|| Message::from_vec(b).is_ok()).unwrap_or(false);
        for ep in MSG_EPS {
            if ep.starts_with("tsig") && !parses {
                continue;
            }
            self.guarded(ep, b, json!(null), || run_msg_ep(ep, b));
        }
        for off in [0usize, 12] {
            self.guarded("record", b, json!({"off": off}), || run_record_at(b, off));
            self.guarded("name", b, json!({"off": off}), || run_name_at(b, off));
        }
        if !b.is_empty() {
            let off = rng.usize_below(b.len().min(65535));
            self.guarded("record", b, json!({"off": off}), || run_record_at(b, off));
            self.guarded("name", b, json!({"off": off}), || run_name_at(b, off));
        }
        if all_rdata {
            for t in gen::TYPES {
                let rt = RecordType::from(t.code);
                let off = if b.len() > 12 && rng.bool() { 12 } else { 0 };
                let len = b.len() - off;
                self.guarded(&format!("rdata:{}", t.name), b, json!({"off": off, "len": len, "type": t.code}), || run_rdata(b, off, len, rt));
            }
        }
    }
}

fn ep_group(ep: &str) -> String {
    match ep {
        // these four share Message::read_records / Name::read
        "message" | "request" | "request_split" | "response" => "message-level".to_string(),
        _ => ep.to_string(),
    }
}

/// coarse structural class of an input, used in finding signatures
fn shape_class(b: &[u8]) -> &'static str {
    // count positions where a pointer points at another pointer
    let mut chain = 0usize;
    let mut i = 0;
    while i + 1 < b.len() {
        if b[i] & 0xC0 == 0xC0 {
            let t = (((b[i] & 0x3f) as usize) << 8) | b[i + 1] as usize;
            if t + 1 < b.len() && b[t] & 0xC0 == 0xC0 {
                chain += 1;
            }
            i += 2;
        } else {
            i += 1;
        }
    }
    if chain >= 64 {
        "pointer-chain"
    } else {
        "other"
    }
}

// ---------------------------------------------------------------------------------------------
// hostile shapes

/// message whose first name region is a chain of pointers each pointing 2 bytes back, referenced
/// by as many minimal records as fit in `total` bytes.
fn pointer_chain_message(total: usize, chain_bytes: usize, with_question: bool) -> Vec<u8> {
    // layout: header | [question: root A IN] | record 1 = root owner, type NULL, RDATA = chain of
    // pointers p_1 -> root, p_2 -> p_1, ... | records whose owner is a pointer to the last element
    let mut b = Vec::with_capacity(total);
    b.extend_from_slice(&[0; 12]);
    if with_question {
        b.extend_from_slice(&[0, 0, 1, 0, 1]);
    }
    let root_at = b.len();
    b.push(0); // root owner
    b.extend_from_slice(&[0, 10, 0, 1, 0, 0, 0, 0]);
    let chain_len = (chain_bytes / 2).min((0x3fff - 32) / 2).max(1);
    b.extend_from_slice(&((chain_len * 2) as u16).to_be_bytes());
    let mut prev = root_at;
    for _ in 0..chain_len {
        let here = b.len();
        let p = 0xC000u16 | prev as u16;
        b.extend_from_slice(&p.to_be_bytes());
        prev = here;
    }
    let chain_end = prev;
    let mut n = 1u16;
    while b.len() + 16 <= total && n < 65535 {
        let p = 0xC000u16 | chain_end as u16;
        b.extend_from_slice(&p.to_be_bytes());
        b.extend_from_slice(&[0, 1, 0, 1, 0, 0, 0, 0, 0, 4, 1, 2, 3, 4]);
        n += 1;
    }
    let h = WHeader { id: 1, flags: if with_question { 0 } else { 0x8000 }, qd: with_question as u16, an: n, ns: 0, ar: 0 };
    let mut hb = Vec::new();
    refwire::put_header(&mut hb, &h);
    b[..12].copy_from_slice(&hb);
    b
}

fn hostile_shapes(rng: &mut Rng, big: bool) -> Vec<(String, Vec<u8>)> {
    let mut v: Vec<(String, Vec<u8>)> = Vec::new();
    let sizes: &[usize] = &[512, 2048, 8192, 16384, 32768, 65535];
    let _ = big;
    for &s in sizes {
        v.push((format!("pointer-chain-{s}"), pointer_chain_message(s, s / 2, false)));
        v.push((format!("pointer-chain-q-{s}"), pointer_chain_message(s, s / 2, true)));
        v.push((format!("pointer-chain-short-{s}"), pointer_chain_message(s, 256, true)));
    }
    // self pointer, forward pointer in question
    for t in [12u16, 13, 14, 0, 0x3fff] {
        let mut b = vec![0, 1, 1, 0, 0, 1, 0, 0, 0, 0, 0, 0];
        b.extend_from_slice(&(0xC000 | t).to_be_bytes());
        b.extend_from_slice(&[0, 1, 0, 1]);
        v.push((format!("question-pointer-{t}"), b));
    }
    // 127 one-octet labels (255 octets) and one more label
    for nl in [126usize, 127, 128] {
        let mut b = vec![0, 1, 1, 0, 0, 1, 0, 0, 0, 0, 0, 0];
        for _ in 0..nl {
            b.extend_from_slice(&[1, b'a']);
        }
        b.push(0);
        b.extend_from_slice(&[0, 1, 0, 1]);
        v.push((format!("labels-{nl}"), b));
    }
    // names assembled through pointers to exactly 255/256+ octets
    for first in [60usize, 61, 62, 63] {
        // offset 12: three 63-octet labels + root = 193 octets; then a second name: label(first) + pointer to 12
        let mut b = vec![0, 1, 0x80, 0, 0, 1, 0, 1, 0, 0, 0, 0];
        for _ in 0..3 {
            b.push(63);
            b.extend(std::iter::repeat(b'x').take(63));
        }
        b.push(0);
        b.extend_from_slice(&[0, 1, 0, 1]);
        // answer owner
        b.push(first as u8);
        b.extend(std::iter::repeat(b'y').take(first));
        b.extend_from_slice(&[0xC0, 12]);
        b.extend_from_slice(&[0, 1, 0, 1, 0, 0, 0, 0, 0, 4, 1, 2, 3, 4]);
        v.push((format!("ptr-concat-{}", first + 1 + 193), b));
    }
    // label length edge values / reserved types
    for l in [63u8, 64, 0x40, 0x80, 0xbf] {
        let mut b = vec![0, 1, 1, 0, 0, 1, 0, 0, 0, 0, 0, 0];
        b.push(l);
        b.extend(std::iter::repeat(b'z').take(70));
        b.push(0);
        b.extend_from_slice(&[0, 1, 0, 1]);
        v.push((format!("label-len-{l}"), b));
    }
    // counts 65535 with a 12-byte body / tiny body
    for body in [0usize, 1, 5, 40] {
        let mut b = vec![0, 1, 0x80, 0, 0xff, 0xff, 0xff, 0xff, 0xff, 0xff, 0xff, 0xff];
        b.extend(rng.bytes(body));
        v.push((format!("counts-max-body-{body}"), b));
        let mut b = vec![0, 1, 0x80, 0, 0, 0, 0xff, 0xff, 0, 0, 0, 0];
        b.extend(rng.bytes(body));
        v.push((format!("ancount-max-body-{body}"), b));
    }
    // RDLENGTH lying in both directions for each type
    for t in gen::TYPES {
        let mut w = WireBuilder::new(50);
        refwire::put_header(&mut w.buf, &WHeader { id: 7, flags: 0x8000, qd: 0, an: 1, ns: 0, ar: 0 });
        let mut names = |r: &mut Rng| gen::name(r, gen::NameStyle::Small);
        let (_s, rd, end) = w.record(rng, &[b"a".to_vec()], t.code, 1, 60, &mut names);
        let rdlen = end - rd;
        for delta in [-1i64, 1, 2, 255, -(rdlen as i64)] {
            let nl = rdlen as i64 + delta;
            if !(0..=65535).contains(&nl) {
                continue;
            }
            let mut b = w.buf.clone();
            b[rd - 2..rd].copy_from_slice(&(nl as u16).to_be_bytes());
            v.push((format!("rdlength-lie-{}-{delta}", t.name), b));
        }
    }
    // many records with maximal many-label names each through its own pointer
    {
        let mut b = vec![0; 12];
        // 127-label name at offset 12
        for _ in 0..127 {
            b.extend_from_slice(&[1, b'a']);
        }
        b.push(0);
        b.extend_from_slice(&[0, 1, 0, 1, 0, 0, 0, 0, 0, 4, 1, 2, 3, 4]);
        let mut n = 1u16;
        let limit = if big { 60000 } else { 6000 };
        while b.len() + 16 < limit {
            b.extend_from_slice(&[0xC0, 12]);
            b.extend_from_slice(&[0, 1, 0, 1, 0, 0, 0, 0, 0, 4, 1, 2, 3, 4]);
            n += 1;
        }
        let mut hb = Vec::new();
        refwire::put_header(&mut hb, &WHeader { id: 1, flags: 0x8000, qd: 0, an: n, ns: 0, ar: 0 });
        b[..12].copy_from_slice(&hb);
        // the name at 12 is not part of any section: records start right after header? no: qd=0 so
        // records start at 12; make the name region a TXT-like junk by declaring it as question 0.
        // Simplest: keep it as-is; decoders will read a record at 12 whose owner is that name.
        v.push(("many-127-label-names".to_string(), b));
    }
    v
}

// ---------------------------------------------------------------------------------------------

fn main() {
    let ctx = Ctx::from_args("C01");
    mon::install_panic_monitor();
    let mut rep = Reporter::new(&ctx);

    if let Some(case) = ctx.replay_case() {
        let c = &case["case"];
        let b = unhex(c["hex"].as_str().unwrap_or(""));
        let mut ck = Checker { rep: &mut rep, replay_hit: None };
        let mut rng = Rng::new(1);
        // re-run every entry point on these bytes (cheap) – and the recorded one with its detail
        ck.check_message_bytes(&b, &mut rng, true);
        if let (Some(off), Some(ep)) = (c["detail"]["off"].as_u64(), c["entry"].as_str()) {
            let off = off as usize;
            if ep == "record" {
                ck.guarded("record", &b, json!({"off": off}), || run_record_at(&b, off));
            } else if ep == "name" {
                ck.guarded("name", &b, json!({"off": off}), || run_name_at(&b, off));
            } else if let (Some(len), Some(t)) = (c["detail"]["len"].as_u64(), c["detail"]["type"].as_u64()) {
                ck.guarded(ep, &b, json!({}), || run_rdata(&b, off, len as usize, RecordType::from(t as u16)));
            }
        }
        rep.replay_finish();
    }

    rep.must("hook_h1_steps", 1000);
    rep.must("inputs_past_header", if ctx.is_thorough() { 1_000_000 } else { 50_000 });
    rep.must("outcome/message:Ok", 1000);
    for t in gen::TYPES {
        rep.must(&format!("outcome/rdata:{}:Ok", t.name), 1);
        if !matches!(t.name, "NULL" | "OPENPGPKEY") {
            rep.must(&format!("rdata_err/{}", t.name), 1);
        }
    }

    let mut rng = ctx.rng("main");
    let mut ck = Checker { rep: &mut rep, replay_hit: None };

    // W4 hostile shapes: the deterministic list is split round-robin over shards
    {
        let mut r = ctx.rng("hostile");
        let mut base = Rng::from_parts(ctx.seed, "C01/hostile-shared", 0);
        let shapes = hostile_shapes(&mut base, ctx.is_thorough());
        for (i, (name, b)) in shapes.iter().enumerate() {
            if !ctx.mine(i as u64) {
                continue;
            }
            ck.rep.count("hostile_shapes");
            ck.rep.sample(|| json!({"workload": "hostile", "shape": name, "len": b.len(), "hex_prefix": hex(&b[..b.len().min(48)])}));
            ck.check_message_bytes(b, &mut r, true);
            ck.rep.add("inputs_past_header", (b.len() > 12) as u64);
            // and mutations of it
            let ints = gen::interesting_offsets(b);
            for _ in 0..4 {
                let m = gen::mutate(&mut r, b, &ints);
                ck.check_message_bytes(&m, &mut r, false);
                ck.rep.add("inputs_past_header", (m.len() > 12) as u64);
            }
        }
    }

    // W5 RDATA of every type: valid then mutated/truncated, read with exact length
    {
        let mut r = ctx.rng("rdata");
        let per_type = ctx.budget(16 * 60, 16 * 6000).max(20);
        for t in gen::TYPES {
            let rt = RecordType::from(t.code);
            for i in 0..per_type {
                // prefix with a few names so pointers have something to point at
                let mut w = WireBuilder::new(60);
                w.buf.extend_from_slice(&[0; 12]);
                let pre = gen::name(&mut r, gen::NameStyle::Small);
                w.name(&mut r, &pre, false);
                let off = w.buf.len();
                let mut names = |r: &mut Rng| gen::any_name(r);
                w.rdata(&mut r, t.code, &mut names);
                let mut b = w.buf;
                let mut len = b.len() - off;
                match i % 4 {
                    0 => {}
                    1 => {
                        // truncate RDATA
                        if len > 0 {
                            len = r.usize_below(len);
                            b.truncate(off + len);
                        }
                    }
                    2 => {
                        // mutate inside RDATA
                        if len > 0 {
                            let m = gen::mutate(&mut r, &b[off..], &[]);
                            b.truncate(off);
                            b.extend_from_slice(&m);
                            len = m.len();
                        }
                    }
                    _ => {
                        // extend
                        let extra = r.bytes_between(1, 6);
                        b.extend_from_slice(&extra);
                        len += extra.len();
                    }
                }
                let ep = format!("rdata:{}", t.name);
                let before_ok = ck.rep.get(&format!("outcome/{ep}:Ok"));
                ck.guarded(&ep, &b, json!({"off": off, "len": len, "type": t.code}), || run_rdata(&b, off, len, rt));
                if ck.rep.get(&format!("outcome/{ep}:Ok")) == before_ok {
                    ck.rep.count(&format!("rdata_err/{}", t.name));
                }
                ck.rep.nontrivial(fnv64(&b) ^ t.code as u64);
            }
        }
        // every shard sees every type, so report the per-shard minimum through a max-merge trick:
        // count once per shard; the driver sums, so divide by nshards there via "must" thresholds
        // unknown type codes
        for _ in 0..per_type {
            let code = r.range(258, 65000) as u16;
            let b = r.bytes_between(0, 40);
            ck.guarded("rdata:unknown", &b, json!({"off": 0, "len": b.len(), "type": code}), || run_rdata(&b, 0, b.len(), RecordType::from(code)));
        }
    }

    // W1 valid messages + mutations ; W2 truncations
    let n_valid = ctx.budget(24_000, 1_500_000);
    for i in 0..n_valid {
        let opts = MsgOpts {
            max_records: if rng.chance(1, 20) { 60 } else { 8 },
            with_opt: rng.chance(1, 3),
            with_tsig: rng.chance(1, 6),
            types: None,
            response: None,
        };
        let b = gen::message_wire(&mut rng, &opts);
        if i < 3 {
            ck.rep.sample(|| json!({"workload": "valid-message", "len": b.len(), "hex": hex(&b)}));
        }
        ck.check_message_bytes(&b, &mut rng, i % 8 == 0);
        ck.rep.add("inputs_past_header", (b.len() > 12) as u64);
        let ints = gen::interesting_offsets(&b);
        for k in 0..6 {
            let m = gen::mutate(&mut rng, &b, &ints);
            ck.check_message_bytes(&m, &mut rng, k == 0 && i % 16 == 0);
            ck.rep.add("inputs_past_header", (m.len() > 12) as u64);
            ck.rep.count("mutants");
        }
        if b.len() <= 300 && i % 40 == 0 {
            for cut in 0..b.len() {
                ck.check_message_bytes(&b[..cut], &mut rng, false);
                ck.rep.count("truncations");
            }
        }
    }

    // W3 raw random bytes
    let n_raw = ctx.budget(16_000, 1_000_000);
    for i in 0..n_raw {
        let len = match rng.below(20) {
            0..=4 => rng.urange(0, 12),
            5..=17 => rng.urange(13, 600),
            _ => {
                if i % 50 == 0 {
                    rng.urange(16_000, 65_535)
                } else {
                    rng.urange(600, 4000)
                }
            }
        };
        let mut b = rng.bytes(len);
        // bias: plausible header so decoders go deeper
        if len >= 12 && rng.chance(2, 3) {
            b[4] = 0;
            b[5] = rng.below(2) as u8;
            for f in [6, 8, 10] {
                b[f] = 0;
                b[f + 1] = rng.below(4) as u8;
            }
        }
        ck.check_message_bytes(&b, &mut rng, i % 32 == 0);
        ck.rep.add("inputs_past_header", (b.len() > 12) as u64);
        ck.rep.count("raw_inputs");
    }

    std::process::exit(rep.finish().min(0));
}
