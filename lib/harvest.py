#!/usr/bin/env python3
"""Maintainer tool: register signature VARIANTS seen by a (thorough / multi-seed) run as findings after triage.

usage: harvest.py <PID> <log-with-VIOLATION-lines> <run-dir-with-shard-output> <family-map.json>
  family-map.json: list of [regex-on-"rule|sig", "what text"]; a violation whose rule|sig matches no regex is
  printed as UNTRIAGED and NOT registered. Fixed entries whose signature re-appears are re-opened with the new witness."""
import json, re, sys, os, glob, shutil
pid, log, rundir, fmap = sys.argv[1:5]
fam = json.load(open(fmap))
K = "/verif/known_findings.json"
k = json.load(open(K))
idx = {(e["signature"]["rule"], e["signature"]["where"]): e for e in k["findings"] if e["property"] == pid}
nxt = 1 + max([int(m.group(1)) for e in k["findings"] if e["property"] == pid for m in [re.match(r".*-H(\d+)$", e["id"])] if m] + [0])
seen = set()
for l in open(log):
    m = re.match(r"VIOLATION property=%s replay=(\S+|\(no witness file\)) rule=(\S+) sig=(.*)$" % pid, l.strip())
    if not m or (m.group(2), m.group(3)) in seen:
        continue
    path, rule, sig = m.groups()
    seen.add((rule, sig))
    if not os.path.exists(path):
        path = None
        for f in glob.glob(os.path.join(rundir, "**", "viol-*.json"), recursive=True):
            try:
                w = json.load(open(f))
            except Exception:
                continue
            if w.get("rule") == rule and w.get("sig") == sig:
                path = f
                break
    e = idx.get((rule, sig))
    if e and e["status"] == "open":
        continue
    if not path:
        print("NO WITNESS", rule, sig); continue
    if e:  # fixed entry re-reached
        shutil.copy(path, os.path.join("/verif", e["witness"]))
        e["what"] += " [still open after %s: the original witness was closed by that commit, the same signature is still produced by the remaining open causes; witness replaced by a case that still fails]" % e.get("commit", "a partial repair")
        e["status"] = "open"; e.pop("commit", None); e.pop("line", None)
        print("reopened", e["id"]); continue
    what = next((t for rx, t in fam if re.search(rx, rule + "|" + sig)), None)
    if not what:
        print("UNTRIAGED", rule, sig, path); continue
    fid = "%s-H%d" % (pid, nxt); nxt += 1
    w = "findings/%s.json" % fid
    shutil.copy(path, os.path.join("/verif", w))
    k["findings"].append({"property": pid, "id": fid, "status": "open", "signature": {"rule": rule, "where": sig}, "witness": w, "what": what})
    print("added", fid, rule, sig)
json.dump(k, open(K, "w"), indent=1); open(K, "a").write("\n")
