//! Deterministic PRNG (xoshiro256**), seeded by splitmix64 from (seed, stream label, shard).

#[derive(Clone, Debug)]
pub struct Rng {
    s: [u64; 4],
}

fn splitmix(x: &mut u64) -> u64 {
    *x = x.wrapping_add(0x9E37_79B9_7F4A_7C15);
    let mut z = *x;
    z = (z ^ (z >> 30)).wrapping_mul(0xBF58_476D_1CE4_E5B9);
    z = (z ^ (z >> 27)).wrapping_mul(0x94D0_49BB_1331_11EB);
    z ^ (z >> 31)
}

pub fn fnv64(bytes: &[u8]) -> u64 {
    let mut h: u64 = 0xcbf2_9ce4_8422_2325;
    for b in bytes {
        h ^= *b as u64;
        h = h.wrapping_mul(0x0000_0100_0000_01B3);
    }
    // final avalanche so that short inputs spread
    let mut x = h;
    splitmix(&mut x)
}

impl Rng {
    pub fn new(seed: u64) -> Self {
        let mut x = seed;
        let s = [splitmix(&mut x), splitmix(&mut x), splitmix(&mut x), splitmix(&mut x)];
        Self { s }
    }

    pub fn from_parts(seed: u64, label: &str, shard: u64) -> Self {
        let mut x = seed ^ fnv64(label.as_bytes()).rotate_left(17) ^ shard.wrapping_mul(0xA24B_AED4_963E_E407);
        let _ = splitmix(&mut x);
        Self::new(x)
    }

    /// Derive an independent child generator.
    pub fn fork(&mut self) -> Self {
        Self::new(self.next_u64())
    }

    pub fn next_u64(&mut self) -> u64 {
        let result = self.s[1].wrapping_mul(5).rotate_left(7).wrapping_mul(9);
        let t = self.s[1] << 17;
        self.s[2] ^= self.s[0];
        self.s[3] ^= self.s[1];
        self.s[1] ^= self.s[2];
        self.s[0] ^= self.s[3];
        self.s[2] ^= t;
        self.s[3] = self.s[3].rotate_left(45);
        result
    }

    pub fn next_u32(&mut self) -> u32 {
        (self.next_u64() >> 32) as u32
    }

    /// uniform in [0, n) ; n must be > 0
    pub fn below(&mut self, n: u64) -> u64 {
        debug_assert!(n > 0);
        // multiply-shift; bias negligible for our purposes
        ((self.next_u64() as u128 * n as u128) >> 64) as u64
    }

    pub fn usize_below(&mut self, n: usize) -> usize {
        self.below(n as u64) as usize
    }

    /// uniform in [lo, hi] inclusive
    pub fn range(&mut self, lo: u64, hi: u64) -> u64 {
        debug_assert!(lo <= hi);
        lo + self.below(hi - lo + 1)
    }

    pub fn urange(&mut self, lo: usize, hi: usize) -> usize {
        self.range(lo as u64, hi as u64) as usize
    }

    pub fn bool(&mut self) -> bool {
        self.next_u64() & 1 == 1
    }

    /// true with probability num/den
    pub fn chance(&mut self, num: u64, den: u64) -> bool {
        self.below(den) < num
    }

    pub fn u8(&mut self) -> u8 {
        (self.next_u64() >> 56) as u8
    }

    pub fn u16(&mut self) -> u16 {
        (self.next_u64() >> 48) as u16
    }

    pub fn pick<'a, T>(&mut self, xs: &'a [T]) -> &'a T {
        &xs[self.usize_below(xs.len())]
    }

    pub fn bytes(&mut self, n: usize) -> Vec<u8> {
        let mut v = Vec::with_capacity(n);
        while v.len() < n {
            let x = self.next_u64().to_le_bytes();
            let take = (n - v.len()).min(8);
            v.extend_from_slice(&x[..take]);
        }
        v
    }

    pub fn shuffle<T>(&mut self, xs: &mut [T]) {
        for i in (1..xs.len()).rev() {
            let j = self.usize_below(i + 1);
            xs.swap(i, j);
        }
    }

    /// pick index according to integer weights
    pub fn weighted(&mut self, weights: &[u32]) -> usize {
        let total: u64 = weights.iter().map(|w| *w as u64).sum();
        let mut x = self.below(total.max(1));
        for (i, w) in weights.iter().enumerate() {
            if x < *w as u64 {
                return i;
            }
            x -= *w as u64;
        }
        weights.len() - 1
    }
}

impl Rng {
    /// random bytes of a length uniform in [lo, hi]
    pub fn bytes_between(&mut self, lo: usize, hi: usize) -> Vec<u8> {
        let n = self.urange(lo, hi);
        self.bytes(n)
    }
}
