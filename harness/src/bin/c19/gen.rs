//! World generator: a base internet (root, 2-3 TLDs, 3-5 second-level zones, 0-2 third-level
//! zones, in/out-of-zone NS names with/without glue) plus graph pathologies plus hostile servers.

use vh::prng::Rng;

use crate::oracle::{in_territory, territory};
use crate::world::*;

pub const KINDS: &[&str] = &["a-victim", "aaaa-victim", "ns-foreign", "ns-parent", "ns-foreign-glue", "glue-ooz", "cname-forged", "control"];
pub const SECTIONS: &[&str] = &["answer", "authority", "additional"];
pub const FEATURES: &[&str] = &[
    "cname-loop",
    "cname-self",
    "cname-long",
    "ns-loop",
    "self-referral",
    "lame-refused",
    "lame-servfail",
    "lame-upward",
    "lame-silent",
    "denied-ns",
    "denied-ns-ooz",
    "ladder",
    "denied-answer",
    "dead-ns",
];
/// features that are delegation-graph loops / dead ends (termination clause)
pub const LOOP_KINDS: &[&str] = &["cname-loop", "cname-self", "cname-long", "ns-loop", "self-referral", "lame-refused", "lame-servfail", "lame-upward", "lame-silent", "denied-ns", "denied-ns-ooz", "ladder", "dead-ns", "glueless-inzone"];

struct G<'a> {
    rng: &'a mut Rng,
    w: World,
    next_srv: u32,
    next_host: u32,
    next_m: u32,
    /// second-level (and deeper) zones that are reachable through plain in-zone glue
    solid: Vec<String>,
    slds: Vec<String>,
    tlds: Vec<String>,
}

impl G<'_> {
    fn srv_ip(&mut self, v6: bool) -> String {
        self.next_srv += 1;
        if v6 {
            format!("2001:db8::{:x}", self.next_srv)
        } else {
            format!("192.0.2.{}", self.next_srv)
        }
    }
    fn host_ip(&mut self) -> String {
        self.next_host = self.next_host % 110 + 1;
        format!("198.51.100.{}", self.next_host)
    }
    fn marker(&mut self) -> u32 {
        self.next_m += 1;
        self.next_m
    }
    fn add(&mut self, zone: &str, owner: &str, rtype: &str, data: &str) {
        let r = Rec::new(owner, rtype, data);
        let z = self.w.zone_mut(zone);
        if !z.recs.contains(&r) {
            z.recs.push(r);
        }
    }
    fn addr_type(ip: &str) -> &'static str {
        if ip.contains(':') {
            "AAAA"
        } else {
            "A"
        }
    }
    fn new_server(&mut self, ip: &str, zones: &[&str]) {
        let chase = self.rng.bool();
        let s = self.w.server_mut(ip);
        s.zones = zones.iter().map(|z| z.to_string()).collect();
        s.chase = chase;
        s.lame = "refused".into();
    }
    fn hosts(&mut self, z: &str) {
        let ip = self.host_ip();
        self.add(z, &format!("www.{z}"), "A", &ip);
        let n = self.next_host;
        self.add(z, &format!("mail.{z}"), "AAAA", &format!("2001:db8:f00::{n:x}"));
        self.add(z, &format!("txt.{z}"), "TXT", "hello");
        self.add(z, &format!("alias.{z}"), "CNAME", &format!("www.{z}"));
    }
    /// delegate `child` from `parent` in-zone with glue to `n` fresh servers
    fn delegate_solid(&mut self, parent: &str, child: &str, n: usize) -> Vec<String> {
        let mut ips = vec![];
        for k in 0..n {
            let v6 = k == 1 && self.rng.chance(1, 3);
            let ip = self.srv_ip(v6);
            let nsn = format!("ns{}.{child}", k + 1);
            self.add(parent, child, "NS", &nsn);
            self.add(parent, &nsn, Self::addr_type(&ip), &ip);
            self.add(child, child, "NS", &nsn);
            self.add(child, &nsn, Self::addr_type(&ip), &ip);
            self.new_server(&ip, &[child]);
            ips.push(ip);
        }
        ips
    }
    fn pick_solid(&mut self) -> String {
        let i = self.rng.usize_below(self.solid.len());
        self.solid[i].clone()
    }
    fn q(&mut self, name: &str, t: &str) {
        let e = (name.to_string(), t.to_string());
        if !self.w.queries.contains(&e) {
            self.w.queries.push(e);
        }
    }
    fn tag(&mut self, t: &str) {
        if !self.w.tags.iter().any(|x| x == t) {
            self.w.tags.push(t.to_string());
        }
    }
}

/// the base internet shared by the generic and the answer-filter worlds
fn base(rng: &mut Rng) -> G<'_> {
    let limits = [8u8, 10, 12];
    let w = World {
        roots: vec![],
        zones: vec![Zone { apex: ".".into(), recs: vec![] }],
        servers: vec![],
        opts: Opts {
            recursion_limit: *rng.pick(&limits),
            ns_recursion_limit: *rng.pick(&limits),
            deny_server: vec!["100.64.0.0/10".into(), "2001:db8:dead::/48".into()],
            allow_server: if rng.bool() { vec!["100.64.1.0/24".into()] } else { vec![] },
            deny_answers: vec![],
            allow_answers: vec![],
            case_randomization: rng.chance(1, 3),
            relaxed_qmin: rng.chance(1, 3),
        },
        queries: vec![],
        tags: vec![],
        fan: None,
    };
    let mut g = G { rng, w, next_srv: 0, next_host: 0, next_m: 0, solid: vec![], slds: vec![], tlds: vec![] };

    // root
    let nroot = g.rng.urange(1, 2);
    for _ in 0..nroot {
        let ip = g.srv_ip(false);
        g.new_server(&ip, &["."]);
        g.w.roots.push(ip);
    }
    // TLDs
    let mut tl = vec!["com.", "org.", "net."];
    g.rng.shuffle(&mut tl);
    let ntld = g.rng.urange(2, 3);
    for t in &tl[..ntld] {
        let n = g.rng.urange(1, 2);
        g.delegate_solid(".", t, n);
        g.hosts(t);
        g.tlds.push(t.to_string());
    }
    // second-level zones
    let mut labs = vec!["alfa", "bravo", "delta", "echo", "kilo", "lima"];
    g.rng.shuffle(&mut labs);
    let nsld = g.rng.urange(3, 5);
    for (i, lab) in labs[..nsld].iter().enumerate() {
        let tld = g.tlds[i % g.tlds.len()].clone();
        let z = format!("{lab}.{tld}");
        let style = if i < 2 { 0 } else { g.rng.weighted(&[4, 2, 3, 1]) };
        let n = g.rng.urange(1, 2);
        // host zones for out-of-zone NS names
        let same: Vec<String> = g.solid.iter().filter(|h| is_sub(h, &tld)).cloned().collect();
        let other: Vec<String> = g.solid.iter().filter(|h| !is_sub(h, &tld)).cloned().collect();
        match style {
            1 if !same.is_empty() => {
                let h = g.rng.pick(&same).clone();
                for k in 0..n {
                    let ip = g.srv_ip(false);
                    let nsn = format!("ns-{lab}{}.{h}", k + 1);
                    g.add(&tld, &z, "NS", &nsn);
                    if g.rng.bool() {
                        g.add(&tld, &nsn, "A", &ip); // sibling glue (in bailiwick of the TLD)
                    }
                    g.add(&h, &nsn, "A", &ip);
                    g.add(&z, &z, "NS", &nsn);
                    g.new_server(&ip, &[&z]);
                }
                g.tag("ns-sibling");
            }
            2 if !other.is_empty() => {
                let h = g.rng.pick(&other).clone();
                for k in 0..n {
                    let v6 = g.rng.chance(1, 4);
                    let ip = g.srv_ip(v6);
                    let nsn = format!("ns-{lab}{}.{h}", k + 1);
                    g.add(&tld, &z, "NS", &nsn);
                    g.add(&h, &nsn, G::addr_type(&ip), &ip);
                    g.add(&z, &z, "NS", &nsn);
                    g.new_server(&ip, &[&z]);
                }
                g.tag("ns-ooz-glueless");
            }
            3 => {
                for k in 0..n {
                    let ip = g.srv_ip(false);
                    let nsn = format!("ns{}.{z}", k + 1);
                    g.add(&tld, &z, "NS", &nsn);
                    g.add(&z, &z, "NS", &nsn);
                    g.add(&z, &nsn, "A", &ip);
                    g.new_server(&ip, &[&z]);
                }
                g.tag("glueless-inzone");
            }
            _ => {
                g.delegate_solid(&tld, &z, n);
                g.solid.push(z.clone());
            }
        }
        g.hosts(&z);
        g.slds.push(z);
    }
    // third level
    let nsub = g.rng.urange(0, 2);
    for i in 0..nsub {
        let p = g.pick_solid();
        let z = format!("{}.{p}", ["sub", "dev"][i]);
        if g.w.zone(&z).is_some() {
            continue;
        }
        let n = g.rng.urange(1, 2);
        g.delegate_solid(&p, &z, n);
        g.hosts(&z);
        g.solid.push(z);
    }
    // cross-zone aliases
    for z in g.slds.clone() {
        let t = g.rng.pick(&g.slds).clone();
        g.add(&z, &format!("xalias.{z}"), "CNAME", &format!("www.{t}"));
    }
    g
}

/// The six limit values of the limit-variation schedule (DESIGN: small, default, u8::MAX).
pub const LIMIT_VALUES: &[u8] = &[1, 2, 3, 8, 24, 255];

pub fn generate(rng: &mut Rng, idx: u64) -> World {
    let mut g = base(rng);
    // every fifth world runs under a (recursion_limit, ns_recursion_limit) pair of the limit
    // schedule instead of 8..12 (a function of the index: the PRNG stream, hence the graph, is
    // the same as without it)
    if idx % 5 == 4 {
        let p = (idx / 5) as usize % (LIMIT_VALUES.len() * LIMIT_VALUES.len());
        g.w.opts.recursion_limit = LIMIT_VALUES[p % LIMIT_VALUES.len()];
        g.w.opts.ns_recursion_limit = LIMIT_VALUES[p / LIMIT_VALUES.len()];
        g.tag("limit-schedule");
    }

    // ---- a few genuine queries first
    let all_zones: Vec<String> = g.slds.iter().chain(g.solid.iter()).cloned().collect();
    for _ in 0..g.rng.urange(1, 3) {
        let z = g.rng.pick(&all_zones).clone();
        let (h, t) = *g.rng.pick(&[("www", "A"), ("mail", "AAAA"), ("alias", "A"), ("xalias", "A"), ("txt", "TXT"), ("nope", "A"), ("www", "AAAA"), ("", "NS")]);
        let name = if h.is_empty() { z.clone() } else { format!("{h}.{z}") };
        g.q(&name, t);
    }

    // ---- pathologies
    let mut feats: Vec<&str> = vec![];
    if !g.rng.chance(1, 8) {
        feats.push(FEATURES[(idx / 24 + idx) as usize % FEATURES.len()]);
    }
    if g.rng.chance(1, 3) {
        feats.push(*g.rng.pick(FEATURES));
    }
    for f in feats {
        feature(&mut g, f);
    }

    // ---- hostile servers
    let nh = if g.rng.chance(1, 7) { 0 } else { 1 + g.rng.chance(1, 3) as usize };
    let mut probes: Vec<(String, String)> = vec![];
    for h in 0..nh {
        let combo = if h == 0 { (idx % 24) as usize } else { g.rng.usize_below(24) };
        hostile(&mut g, KINDS[combo % 8], (combo / 8) as u8, &mut probes);
    }
    for (n, t) in probes {
        g.q(&n, &t);
    }
    // second pass: repeat a few earlier queries on the now warm (possibly contaminated) caches
    let n_first = g.w.queries.len();
    for _ in 0..g.rng.urange(1, 3) {
        let i = g.rng.usize_below(n_first);
        let e = g.w.queries[i].clone();
        g.w.queries.push(e);
    }
    // one more genuine query at the end
    let z = g.rng.pick(&all_zones).clone();
    g.q(&format!("www.{z}"), "A");
    g.w
}

fn feature(g: &mut G, f: &str) {
    match f {
        "cname-loop" => {
            let z1 = g.rng.pick(&g.slds).clone();
            let z2 = g.rng.pick(&g.slds).clone();
            g.add(&z1, &format!("loop1.{z1}"), "CNAME", &format!("loop2.{z2}"));
            g.add(&z2, &format!("loop2.{z2}"), "CNAME", &format!("loop1.{z1}"));
            g.q(&format!("loop1.{z1}"), "A");
        }
        "cname-self" => {
            let z = g.rng.pick(&g.slds).clone();
            g.add(&z, &format!("self.{z}"), "CNAME", &format!("self.{z}"));
            g.q(&format!("self.{z}"), "A");
        }
        "cname-long" => {
            let z = [g.rng.pick(&g.slds).clone(), g.rng.pick(&g.slds).clone()];
            let k = g.rng.urange(3, 20);
            for i in 0..k {
                let here = format!("c{i}.{}", z[i % 2]);
                let next = if i + 1 == k { format!("www.{}", z[0]) } else { format!("c{}.{}", i + 1, z[(i + 1) % 2]) };
                g.add(&z[i % 2].clone(), &here, "CNAME", &next);
            }
            g.q(&format!("c0.{}", z[0]), "A");
        }
        "ns-loop" => {
            let t1 = g.tlds[0].clone();
            let t2 = g.tlds[1 % g.tlds.len()].clone();
            let (p, q) = (format!("papa.{t1}"), format!("quebec.{t2}"));
            let (ip1, ip2) = (g.srv_ip(false), g.srv_ip(false));
            g.add(&t1, &p, "NS", &format!("ns.{q}"));
            g.add(&t2, &q, "NS", &format!("ns.{p}"));
            g.add(&p, &p, "NS", &format!("ns.{q}"));
            g.add(&q, &q, "NS", &format!("ns.{p}"));
            g.add(&p, &format!("ns.{p}"), "A", &ip2);
            g.add(&q, &format!("ns.{q}"), "A", &ip1);
            g.add(&p, &format!("www.{p}"), "A", "198.51.100.111");
            g.new_server(&ip1, &[&p]);
            g.new_server(&ip2, &[&q]);
            g.q(&format!("www.{p}"), "A");
        }
        "self-referral" => {
            let p = g.pick_solid();
            let ip = g.w.servers.iter().find(|s| s.zones.iter().any(|z| *z == p)).map(|s| s.ip.clone()).unwrap_or_default();
            let c = format!("selfref.{p}");
            g.add(&p, &c, "NS", &format!("ns.{c}"));
            g.add(&p, &format!("ns.{c}"), G::addr_type(&ip), &ip);
            g.q(&format!("www.{c}"), "A");
        }
        "lame-refused" | "lame-servfail" | "lame-upward" | "lame-silent" => {
            let p = g.pick_solid();
            let ip = g.srv_ip(false);
            let c = format!("lame.{p}");
            g.add(&p, &c, "NS", &format!("ns.{c}"));
            g.add(&p, &format!("ns.{c}"), "A", &ip);
            g.new_server(&ip, &[]);
            let mode = f.trim_start_matches("lame-").to_string();
            let s = g.w.server_mut(&ip);
            if mode == "silent" {
                s.silent = true;
            }
            s.lame = mode;
            g.q(&format!("www.{c}"), "A");
        }
        "denied-ns" | "denied-ns-ooz" => {
            let p = g.pick_solid();
            let c = format!("den.{p}");
            let v6 = g.rng.chance(1, 3);
            let n = g.rng.urange(1, 60);
            let bad = if v6 { format!("2001:db8:dead::{n:x}") } else { format!("100.64.0.{n}") };
            let nsn = if f == "denied-ns" {
                format!("ns1.{c}")
            } else {
                let h = g.pick_solid();
                format!("ns-den.{h}")
            };
            g.add(&p, &c, "NS", &nsn);
            g.add(&c, &c, "NS", &nsn);
            if f == "denied-ns" {
                g.add(&p, &nsn, G::addr_type(&bad), &bad);
                g.add(&c, &nsn, G::addr_type(&bad), &bad);
            } else {
                let h = parent_of(&nsn);
                g.add(&h, &nsn, G::addr_type(&bad), &bad);
            }
            g.new_server(&bad, &[&c]);
            // sometimes a second, permitted server (plain address, or inside the allow override)
            match g.rng.below(3) {
                0 => {}
                1 => {
                    let ip = g.srv_ip(false);
                    let ns2 = format!("ns2.{c}");
                    g.add(&p, &c, "NS", &ns2);
                    g.add(&p, &ns2, "A", &ip);
                    g.add(&c, &c, "NS", &ns2);
                    g.add(&c, &ns2, "A", &ip);
                    g.new_server(&ip, &[&c]);
                }
                _ => {
                    let ip = format!("100.64.1.{n}");
                    let ns2 = format!("ns2.{c}");
                    g.add(&p, &c, "NS", &ns2);
                    g.add(&p, &ns2, "A", &ip);
                    g.add(&c, &c, "NS", &ns2);
                    g.add(&c, &ns2, "A", &ip);
                    g.new_server(&ip, &[&c]);
                }
            }
            g.hosts(&c);
            g.q(&format!("www.{c}"), "A");
            g.q(&format!("mail.{c}"), "AAAA");
        }
        "ladder" => {
            let p = g.pick_solid();
            let c = format!("lad.{p}");
            let ip = g.srv_ip(false);
            let nsn = format!("ns.{c}");
            g.add(&p, &c, "NS", &nsn);
            g.add(&p, &nsn, "A", &ip);
            g.add(&c, &c, "NS", &nsn);
            g.add(&c, &nsn, "A", &ip);
            g.new_server(&ip, &[&c]);
            g.w.server_mut(&ip).ladder = c.clone();
            let k = g.rng.urange(2, 14);
            let mut name = c.clone();
            for i in 0..k {
                name = format!("l{i}.{name}");
            }
            g.q(&name, "A");
        }
        "denied-answer" => {
            let p = g.pick_solid();
            g.w.opts.deny_answers = vec!["198.51.100.128/25".into(), "2001:db8:b10c::/48".into()];
            if g.rng.bool() {
                g.w.opts.allow_answers = vec!["198.51.100.192/27".into()];
            }
            g.add(&p, &format!("blocked.{p}"), "A", "198.51.100.130");
            g.add(&p, &format!("okay.{p}"), "A", "198.51.100.200");
            g.add(&p, &format!("mixed.{p}"), "A", "198.51.100.131");
            g.add(&p, &format!("mixed.{p}"), "A", "198.51.100.9");
            g.add(&p, &format!("blocked6.{p}"), "AAAA", "2001:db8:b10c::1");
            g.add(&p, &format!("cblocked.{p}"), "CNAME", &format!("blocked.{p}"));
            for (h, t) in [("blocked", "A"), ("okay", "A"), ("mixed", "A"), ("blocked6", "AAAA"), ("cblocked", "A")] {
                if g.rng.chance(2, 3) {
                    g.q(&format!("{h}.{p}"), t);
                }
            }
        }
        "dead-ns" => {
            let p = g.pick_solid();
            let c = format!("dead.{p}");
            let t = g.tlds[0].clone();
            g.add(&p, &c, "NS", &format!("ns.nonexistent.{t}"));
            g.q(&format!("www.{c}"), "A");
        }
        _ => {}
    }
    g.tag(f);
}

fn hostile(g: &mut G, kind: &str, section: u8, probes: &mut Vec<(String, String)>) {
    // candidate injectors: non-root servers that serve exactly one ordinary zone
    let mut cands: Vec<(String, String)> = g
        .w
        .servers
        .iter()
        .filter(|s| s.zones.len() == 1 && s.zones[0] != "." && s.ladder.is_empty() && s.sink == 0 && !s.silent && !s.ip.starts_with("100.64.0.") && !s.ip.starts_with("2001:db8:dead") && !s.ip.starts_with("198.18.") && !s.ip.starts_with("2001:db8:af:"))
        .filter(|s| g.slds.contains(&s.zones[0]) || g.solid.contains(&s.zones[0]) || g.tlds.contains(&s.zones[0]))
        .map(|s| (s.ip.clone(), s.zones[0].clone()))
        .collect();
    g.rng.shuffle(&mut cands);
    for (ip, home) in cands {
        let terr = territory(&g.w, &ip);
        let victims: Vec<Rec> = g
            .w
            .zones
            .iter()
            .flat_map(|z| z.recs.iter())
            .filter(|r| r.rtype == "A" && r.owner.starts_with("www.") && !in_territory(&r.owner, &terr))
            .cloned()
            .collect();
        let foreign: Vec<String> = g.slds.iter().chain(g.tlds.iter()).filter(|a| !in_territory(a, &terr)).cloned().collect();
        let mut parents: Vec<String> = vec![];
        let mut p = parent_of(&home);
        loop {
            if !in_territory(&p, &terr) {
                parents.push(p.clone());
            }
            if p == "." {
                break;
            }
            p = parent_of(&p);
        }
        // a solid zone outside the territory that can host an out-of-zone NS name
        let ooz_hosts: Vec<String> = g.solid.iter().filter(|z| !in_territory(z, &terr)).cloned().collect();
        let m = g.marker();
        let v6 = kind == "aaaa-victim" || (kind != "a-victim" && g.rng.chance(1, 4));
        let evil = if v6 { evil_v6(m) } else { evil_v4(m) };
        let at = if v6 { "AAAA" } else { "A" };
        let mut on: Vec<String> = ["referral", "answer", "nodata", "nxdomain"].iter().filter(|_| g.rng.bool()).map(|s| s.to_string()).collect();
        if on.is_empty() {
            on.push("answer".into());
        }
        let mut only_qname = String::new();
        let mut recs: Vec<Rec> = vec![];
        let cause_owner;
        let mut want_sink = false;
        match kind {
            "a-victim" | "aaaa-victim" => {
                if victims.is_empty() {
                    continue;
                }
                let v = g.rng.pick(&victims).clone();
                recs.push(Rec::new(&v.owner, at, &evil));
                cause_owner = v.owner.clone();
                probes.push((v.owner.clone(), at.to_string()));
                probes.push((v.owner.clone(), "A".to_string()));
            }
            "ns-foreign" | "ns-parent" | "ns-foreign-glue" => {
                let pool = if kind == "ns-parent" { &parents } else { &foreign };
                if pool.is_empty() {
                    continue;
                }
                let target = g.rng.pick(pool).clone();
                let nsn = if kind == "ns-foreign-glue" { format!("evil{m}.{}", if target == "." { "".to_string() } else { target.clone() }) } else { format!("evil{m}.ns.{home}") };
                let nsn = if nsn.ends_with('.') { nsn } else { format!("{nsn}.") };
                recs.push(Rec::new(&target, "NS", &nsn));
                recs.push(Rec::new(&nsn, at, &evil));
                if kind != "ns-foreign-glue" {
                    // the evil name-server name is genuinely resolvable inside the injector's own zone
                    g.add(&home, &nsn, at, &evil);
                }
                cause_owner = target.clone();
                want_sink = true;
                probes.push((target.clone(), "NS".to_string()));
                // a name inside the targeted zone that is not inside the injector's own territory
                let inside: Vec<Rec> = victims.iter().filter(|v| is_sub(&v.owner, &target)).cloned().collect();
                if !inside.is_empty() {
                    let v = g.rng.pick(&inside).clone();
                    probes.push((v.owner, "A".to_string()));
                }
            }
            "glue-ooz" => {
                if ooz_hosts.is_empty() {
                    continue;
                }
                let h = g.rng.pick(&ooz_hosts).clone();
                let c = format!("oz{m}.{home}");
                let nsn = format!("ns-oz{m}.{h}");
                let ip = g.srv_ip(false);
                g.add(&home, &c, "NS", &nsn);
                g.add(&c, &c, "NS", &nsn);
                g.add(&h, &nsn, "A", &ip);
                g.new_server(&ip, &[&c]);
                g.hosts(&c);
                recs.push(Rec::new(&nsn, at, &evil));
                cause_owner = nsn.clone();
                want_sink = true;
                if !on.iter().any(|k| k == "referral") {
                    on.push("referral".into());
                }
                g.q(&format!("www.{c}"), "A");
                probes.push((nsn.clone(), at.to_string()));
                probes.push((format!("mail.{c}"), "AAAA".to_string()));
            }
            "cname-forged" => {
                if victims.is_empty() {
                    continue;
                }
                let v = g.rng.pick(&victims).clone();
                let fx = format!("fx{m}.{home}");
                g.add(&home, &fx, "CNAME", &v.owner);
                only_qname = fx.clone();
                on = vec!["answer".into()];
                recs.push(Rec::new(&v.owner, at, &evil));
                cause_owner = v.owner.clone();
                g.q(&fx, at);
                probes.push((v.owner.clone(), at.to_string()));
            }
            _ => {
                // control group: an in-bailiwick marked record (must never raise an alarm)
                let o = format!("evilhost{m}.{home}");
                recs.push(Rec::new(&o, at, &evil));
                cause_owner = o;
            }
        }
        let period = *g.rng.pick(&[1u32, 1, 2]);
        let inj = Inj { m, kind: kind.to_string(), section, on: on.clone(), only_qname, period, recs, cause_owner, mode: String::new() };
        g.w.server_mut(&ip).inj.push(inj);
        if want_sink {
            let s = g.w.server_mut(&evil);
            s.sink = m;
        }
        // queries that make the injector talk
        let child: Option<String> = g.w.zone(&home).and_then(|z| z.recs.iter().find(|r| r.rtype == "NS" && r.owner != home).map(|r| r.owner.clone()));
        for k in &on {
            match k.as_str() {
                "answer" => g.q(&format!("www.{home}"), "A"),
                "nodata" => g.q(&format!("txt.{home}"), "A"),
                "nxdomain" => g.q(&format!("nx{m}.{home}"), "A"),
                _ => {
                    if let Some(c) = &child {
                        g.q(&format!("www.{c}"), "A");
                    }
                }
            }
        }
        g.tag("hostile");
        return;
    }
}

// ---------------------------------------------------------------------------------------------
// answer-filter worlds
//
// Address plan (all inside documentation / benchmarking space, never used by the base internet):
//   deny_answers   198.18.0.0/15, 2001:db8:af::/48     (sometimes also the marker ranges)
//   allow_answers  198.18.200.0/24, 2001:db8:af:a110::/64  (override inside the denied nets)
//   deny_server    100.64.0.0/10, 2001:db8:dead::/48 (as everywhere) + 198.18.99.0/24,
//                  2001:db8:af:dead::/64 (inside the answer-denied nets: denied by both filters)
// so that an address of every filter class exists in both families:
//   ans-deny   198.18.7.n    / 2001:db8:af::n         contactable if it ever got through
//   ans-allow  198.18.200.n  / 2001:db8:af:a110::n    permitted by the override: returned + contacted
//   srv-deny   100.64.0.n    / 2001:db8:dead::n       may be returned, never contacted
//   both-deny  198.18.99.n   / 2001:db8:af:dead::n

pub const AF_ELEMS: &[&str] = &["af-glue", "af-glue-ooz", "af-host", "af-moved"];
pub const AF_KINDS: &[&str] = &["referral", "answer", "nodata", "nxdomain"];

fn af_addr(class: &str, v6: bool, n: u32) -> String {
    match (class, v6) {
        ("ans-deny", false) => format!("198.18.7.{n}"),
        ("ans-deny", true) => format!("2001:db8:af::{n:x}"),
        ("ans-allow", false) => format!("198.18.200.{n}"),
        ("ans-allow", true) => format!("2001:db8:af:a110::{n:x}"),
        ("srv-deny", false) => format!("100.64.0.{n}"),
        ("srv-deny", true) => format!("2001:db8:dead::{n:x}"),
        (_, false) => format!("198.18.99.{n}"),
        (_, true) => format!("2001:db8:af:dead::{n:x}"),
    }
}

/// `idx` rotates filter class x element x section x family x response kind.
pub fn generate_af(rng: &mut Rng, idx: u64) -> World {
    let mut g = base(rng);
    let class = crate::oracle::AF_CLASSES[(idx % 4) as usize];
    let elem = AF_ELEMS[(idx / 4 % 4) as usize];
    let section = (idx / 16 % 3) as u8;
    let v6 = idx / 48 % 2 == 1;
    let lead_kind = AF_KINDS[(idx / 96 % 4) as usize];

    g.w.opts.deny_answers = vec!["198.18.0.0/15".into(), "2001:db8:af::/48".into()];
    if g.rng.chance(1, 3) {
        // the marker ranges too: every hostile record then also carries an answer-denied address
        g.w.opts.deny_answers.push("203.0.113.0/24".into());
        g.w.opts.deny_answers.push("2001:db8:bad::/48".into());
        g.tag("af-markers-denied");
    }
    if class == "ans-allow" || g.rng.bool() {
        g.w.opts.allow_answers = vec!["198.18.200.0/24".into(), "2001:db8:af:a110::/64".into()];
    }
    g.w.opts.deny_server.push("198.18.99.0/24".into());
    g.w.opts.deny_server.push("2001:db8:af:dead::/64".into());

    let all_zones: Vec<String> = g.slds.iter().chain(g.solid.iter()).cloned().collect();
    let z = g.rng.pick(&all_zones).clone();
    g.q(&format!("www.{z}"), "A");

    let n = g.rng.urange(1, 60) as u32;
    let x = af_addr(class, v6, n);
    let at = G::addr_type(&x);
    let m = g.marker();
    let mut on: Vec<String> = vec![lead_kind.to_string()];
    for k in AF_KINDS {
        if *k != lead_kind && g.rng.chance(1, 3) {
            on.push(k.to_string());
        }
    }
    // (injector address, its zone, in-bailiwick record it sprinkles, only_qname, mode)
    let injector: Option<(String, String)>;
    let mut inj_rec: Option<Rec> = None;
    let mut only_qname = String::new();
    let mut mode = String::new();
    let mut inj_section = section;
    let mut extra_q: Vec<(String, String)> = vec![];
    match elem {
        "af-glue" | "af-glue-ooz" => {
            let p = g.pick_solid();
            let c = format!("afz.{p}");
            let others: Vec<String> = g.solid.iter().filter(|h| **h != p && !is_sub(h, &c)).cloned().collect();
            let ooz = elem == "af-glue-ooz" && !others.is_empty();
            let nsn = if ooz { format!("ns-af.{}", g.rng.pick(&others)) } else { format!("ns1.{c}") };
            g.add(&p, &c, "NS", &nsn);
            g.add(&c, &c, "NS", &nsn);
            let host_zone = if ooz {
                let h = parent_of(&nsn);
                g.add(&h, &nsn, at, &x);
                h
            } else {
                g.add(&p, &nsn, at, &x); // glue
                g.add(&c, &nsn, at, &x);
                p.clone()
            };
            g.new_server(&x, &[&c]);
            if g.rng.bool() {
                // a second, ordinary server: the zone stays resolvable without the filtered address
                let ip = g.srv_ip(false);
                let ns2 = format!("ns2.{c}");
                g.add(&p, &c, "NS", &ns2);
                g.add(&p, &ns2, "A", &ip);
                g.add(&c, &c, "NS", &ns2);
                g.add(&c, &ns2, "A", &ip);
                g.new_server(&ip, &[&c]);
                g.tag("af-second-ns");
            }
            g.hosts(&c);
            g.q(&format!("www.{c}"), "A");
            g.q(&c, "NS");
            g.q(&nsn, at);
            extra_q.push((format!("mail.{c}"), "AAAA".into()));
            extra_q.push((c.clone(), "NS".into()));
            extra_q.push((format!("www.{c}"), "A".into()));
            // the server that publishes the address also repeats it in other responses
            let ip = g.w.servers.iter().find(|s| s.zones.iter().any(|zz| *zz == host_zone) && s.sink == 0).map(|s| s.ip.clone());
            injector = ip.map(|ip| (ip, host_zone.clone()));
            inj_rec = Some(Rec::new(&nsn, at, &x));
            g.tag(if ooz { "af-glue-ooz" } else { "af-glue" });
        }
        "af-host" => {
            let home = g.pick_solid();
            let o = format!("afh.{home}");
            if g.rng.bool() {
                g.add(&home, &o, at, &x);
            }
            let ip = g.w.servers.iter().find(|s| s.zones.iter().any(|zz| *zz == home)).map(|s| s.ip.clone());
            injector = ip.map(|ip| (ip, home.clone()));
            inj_rec = Some(Rec::new(&o, at, &x));
            extra_q.push((o.clone(), at.to_string()));
            extra_q.push((o.clone(), "A".to_string()));
            g.tag("af-host");
        }
        _ => {
            // af-moved: the genuine answer to `afm.<home> <at>` travels in the authority or the
            // additional section; the same name is the name-server name of a delegation whose
            // server listens on the address
            let home = g.pick_solid();
            let o = format!("afm.{home}");
            g.add(&home, &o, at, &x);
            let c = format!("afmz.{home}");
            g.add(&home, &c, "NS", &o);
            g.add(&c, &c, "NS", &o);
            g.new_server(&x, &[&c]);
            g.hosts(&c);
            let ip = g.w.servers.iter().find(|s| s.zones.iter().any(|zz| *zz == home)).map(|s| s.ip.clone());
            injector = ip.map(|ip| (ip, home.clone()));
            only_qname = o.clone();
            mode = "move".into();
            on = vec!["answer".into()];
            if inj_section == 0 {
                inj_section = 1 + (idx / 96 % 2) as u8;
            }
            g.q(&o, at);
            g.q(&format!("www.{c}"), "A");
            extra_q.push((o.clone(), at.to_string()));
            extra_q.push((c.clone(), "NS".into()));
            extra_q.push((format!("mail.{c}"), "AAAA".into()));
            g.tag("af-moved");
        }
    }
    if let Some((ip, home)) = injector {
        let cause_owner = inj_rec.as_ref().map(|r| r.owner.clone()).unwrap_or_else(|| only_qname.clone());
        let period = *g.rng.pick(&[1u32, 1, 2]);
        let inj = Inj { m, kind: "af".into(), section: inj_section, on: on.clone(), only_qname, period, recs: inj_rec.into_iter().collect(), cause_owner, mode: mode.clone() };
        g.w.server_mut(&ip).inj.push(inj);
        if mode.is_empty() {
            // queries that make the publisher talk in every response kind it decorates
            let child: Option<String> = g.w.zone(&home).and_then(|z| z.recs.iter().find(|r| r.rtype == "NS" && r.owner != home).map(|r| r.owner.clone()));
            for k in &on {
                match k.as_str() {
                    "answer" => g.q(&format!("www.{home}"), "A"),
                    "nodata" => g.q(&format!("txt.{home}"), "A"),
                    "nxdomain" => g.q(&format!("nx{m}.{home}"), "A"),
                    _ => {
                        if let Some(c) = &child {
                            g.q(&format!("www.{c}"), "A");
                            g.q(c, "NS");
                        }
                    }
                }
            }
        }
    }
    for (n, t) in extra_q {
        g.w.queries.push((n, t)); // repeats are intended (cache)
    }
    g.tag("af");
    g.tag(&format!("af-class/{class}"));
    g.tag(if v6 { "af-v6" } else { "af-v4" });

    // mixture: a graph pathology and / or an ordinary (out-of-bailiwick) injection on top
    if g.rng.chance(1, 3) {
        let f = *g.rng.pick(FEATURES);
        if f != "denied-answer" {
            feature(&mut g, f);
        }
    }
    if g.rng.chance(1, 2) {
        let mut probes: Vec<(String, String)> = vec![];
        let combo = g.rng.usize_below(24);
        hostile(&mut g, KINDS[combo % 8], (combo / 8) as u8, &mut probes);
        for (n, t) in probes {
            g.q(&n, &t);
        }
    }
    let n_first = g.w.queries.len();
    for _ in 0..g.rng.urange(1, 3) {
        let i = g.rng.usize_below(n_first);
        let e = g.w.queries[i].clone();
        g.w.queries.push(e);
    }
    g.w
}
