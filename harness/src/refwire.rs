//! Independent minimal DNS wire walker and writer (RFC 1035 §4.1). Shares no code with hickory.
//! Names are `Vec<Vec<u8>>` (labels, root excluded).

#[derive(Clone, Debug, PartialEq, Eq)]
pub struct WHeader {
    pub id: u16,
    pub flags: u16,
    pub qd: u16,
    pub an: u16,
    pub ns: u16,
    pub ar: u16,
}

impl WHeader {
    pub fn qr(&self) -> bool {
        self.flags & 0x8000 != 0
    }
    pub fn opcode(&self) -> u8 {
        ((self.flags >> 11) & 0xf) as u8
    }
    pub fn aa(&self) -> bool {
        self.flags & 0x0400 != 0
    }
    pub fn tc(&self) -> bool {
        self.flags & 0x0200 != 0
    }
    pub fn rd(&self) -> bool {
        self.flags & 0x0100 != 0
    }
    pub fn ra(&self) -> bool {
        self.flags & 0x0080 != 0
    }
    pub fn ad(&self) -> bool {
        self.flags & 0x0020 != 0
    }
    pub fn cd(&self) -> bool {
        self.flags & 0x0010 != 0
    }
    pub fn rcode_low(&self) -> u8 {
        (self.flags & 0xf) as u8
    }
}

pub type Labels = Vec<Vec<u8>>;

#[derive(Clone, Debug)]
pub struct WName {
    pub labels: Labels,
    /// number of compression pointers followed
    pub pointers: usize,
    /// offsets the pointers pointed to
    pub targets: Vec<usize>,
}

impl WName {
    pub fn wire_len(&self) -> usize {
        self.labels.iter().map(|l| l.len() + 1).sum::<usize>() + 1
    }
}

#[derive(Clone, Debug)]
pub struct WQuestion {
    pub name: WName,
    pub qtype: u16,
    pub qclass: u16,
}

#[derive(Clone, Debug)]
pub struct WRecord {
    pub start: usize,
    pub owner: WName,
    pub rtype: u16,
    pub class: u16,
    pub ttl: u32,
    pub rdata_off: usize,
    pub rdata_len: usize,
    pub end: usize,
}

impl WRecord {
    pub fn rdata<'a>(&self, msg: &'a [u8]) -> &'a [u8] {
        &msg[self.rdata_off..self.rdata_off + self.rdata_len]
    }
}

#[derive(Clone, Debug)]
pub struct WMessage {
    pub header: WHeader,
    pub questions: Vec<WQuestion>,
    pub question_end: usize,
    /// answers, authorities, additionals
    pub sections: [Vec<WRecord>; 3],
    /// offset just past the last record
    pub end: usize,
}

impl WMessage {
    pub fn all_records(&self) -> impl Iterator<Item = &WRecord> {
        self.sections.iter().flat_map(|s| s.iter())
    }
}

fn u16_at(b: &[u8], off: usize) -> Result<u16, String> {
    if off + 2 > b.len() {
        return Err(format!("short read u16 at {off}"));
    }
    Ok(u16::from_be_bytes([b[off], b[off + 1]]))
}
fn u32_at(b: &[u8], off: usize) -> Result<u32, String> {
    if off + 4 > b.len() {
        return Err(format!("short read u32 at {off}"));
    }
    Ok(u32::from_be_bytes([b[off], b[off + 1], b[off + 2], b[off + 3]]))
}

/// Read a (possibly compressed) name starting at `off`. Strict rule: every pointer must point
/// strictly before the position of the pointer itself; labels ≤ 63; wire length ≤ 255.
/// Returns the name and the offset following it in the original stream.
pub fn read_name(b: &[u8], off: usize) -> Result<(WName, usize), String> {
    let mut labels: Labels = Vec::new();
    let mut pos = off;
    let mut next: Option<usize> = None;
    let mut total = 1usize;
    let mut pointers = 0usize;
    let mut targets = Vec::new();
    loop {
        let Some(&len) = b.get(pos) else {
            return Err(format!("name runs off the end at {pos}"));
        };
        match len & 0xC0 {
            0x00 => {
                if len == 0 {
                    pos += 1;
                    break;
                }
                let l = len as usize;
                if pos + 1 + l > b.len() {
                    return Err(format!("label runs off the end at {pos}"));
                }
                total += l + 1;
                if total > 255 {
                    return Err(format!("name longer than 255 at {off}"));
                }
                labels.push(b[pos + 1..pos + 1 + l].to_vec());
                pos += 1 + l;
            }
            0xC0 => {
                let Some(&lo) = b.get(pos + 1) else {
                    return Err(format!("pointer runs off the end at {pos}"));
                };
                let target = (((len & 0x3f) as usize) << 8) | lo as usize;
                if target >= pos {
                    return Err(format!("pointer at {pos} does not point backwards ({target})"));
                }
                if next.is_none() {
                    next = Some(pos + 2);
                }
                pointers += 1;
                if pointers > 128 {
                    return Err("too many pointers".into());
                }
                targets.push(target);
                pos = target;
            }
            _ => return Err(format!("reserved label type {len:#x} at {pos}")),
        }
    }
    Ok((WName { labels, pointers, targets }, next.unwrap_or(pos)))
}

pub fn read_header(b: &[u8]) -> Result<WHeader, String> {
    if b.len() < 12 {
        return Err("shorter than header".into());
    }
    Ok(WHeader {
        id: u16_at(b, 0)?,
        flags: u16_at(b, 2)?,
        qd: u16_at(b, 4)?,
        an: u16_at(b, 6)?,
        ns: u16_at(b, 8)?,
        ar: u16_at(b, 10)?,
    })
}

pub fn read_record(b: &[u8], off: usize) -> Result<WRecord, String> {
    let (owner, p) = read_name(b, off)?;
    let rtype = u16_at(b, p)?;
    let class = u16_at(b, p + 2)?;
    let ttl = u32_at(b, p + 4)?;
    let rdlen = u16_at(b, p + 8)? as usize;
    let rdata_off = p + 10;
    if rdata_off + rdlen > b.len() {
        return Err(format!("rdata of record at {off} runs off the end"));
    }
    Ok(WRecord { start: off, owner, rtype, class, ttl, rdata_off, rdata_len: rdlen, end: rdata_off + rdlen })
}

/// Walk a whole message. Fails on any framing problem. Does NOT require `end == b.len()`;
/// callers check leftovers themselves.
pub fn walk(b: &[u8]) -> Result<WMessage, String> {
    let header = read_header(b)?;
    let mut off = 12;
    let mut questions = Vec::new();
    for _ in 0..header.qd {
        let (name, p) = read_name(b, off)?;
        let qtype = u16_at(b, p)?;
        let qclass = u16_at(b, p + 2)?;
        off = p + 4;
        questions.push(WQuestion { name, qtype, qclass });
    }
    let question_end = off;
    let mut sections: [Vec<WRecord>; 3] = [Vec::new(), Vec::new(), Vec::new()];
    for (i, n) in [header.an, header.ns, header.ar].into_iter().enumerate() {
        for _ in 0..n {
            let r = read_record(b, off)?;
            off = r.end;
            sections[i].push(r);
        }
    }
    Ok(WMessage { header, questions, question_end, sections, end: off })
}

// ---------------------------------------------------------------------------------------------
// writer (uncompressed unless told otherwise)

pub fn put_name(out: &mut Vec<u8>, labels: &[Vec<u8>]) {
    for l in labels {
        out.push(l.len() as u8);
        out.extend_from_slice(l);
    }
    out.push(0);
}

pub fn put_header(out: &mut Vec<u8>, h: &WHeader) {
    for x in [h.id, h.flags, h.qd, h.an, h.ns, h.ar] {
        out.extend_from_slice(&x.to_be_bytes());
    }
}

pub fn put_question(out: &mut Vec<u8>, labels: &[Vec<u8>], qtype: u16, qclass: u16) {
    put_name(out, labels);
    out.extend_from_slice(&qtype.to_be_bytes());
    out.extend_from_slice(&qclass.to_be_bytes());
}

pub fn put_record(out: &mut Vec<u8>, owner: &[Vec<u8>], rtype: u16, class: u16, ttl: u32, rdata: &[u8]) {
    put_name(out, owner);
    out.extend_from_slice(&rtype.to_be_bytes());
    out.extend_from_slice(&class.to_be_bytes());
    out.extend_from_slice(&ttl.to_be_bytes());
    out.extend_from_slice(&(rdata.len() as u16).to_be_bytes());
    out.extend_from_slice(rdata);
}

/// parse "a.b.c." style ASCII names (no escapes) into labels; "." is the root
pub fn labels_of(s: &str) -> Labels {
    s.split('.').filter(|l| !l.is_empty()).map(|l| l.as_bytes().to_vec()).collect()
}

pub fn fold(labels: &[Vec<u8>]) -> Labels {
    labels.iter().map(|l| l.iter().map(|c| c.to_ascii_lowercase()).collect()).collect()
}

pub fn show(labels: &[Vec<u8>]) -> String {
    if labels.is_empty() {
        return ".".into();
    }
    let mut s = String::new();
    for l in labels {
        for &c in l {
            if c == b'.' || c == b'\\' {
                s.push('\\');
                s.push(c as char);
            } else if c.is_ascii_graphic() {
                s.push(c as char);
            } else {
                s.push_str(&format!("\\{c:03}"));
            }
        }
        s.push('.');
    }
    s
}
