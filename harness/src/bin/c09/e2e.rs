//! End-to-end half of C09: hickory's own NSEC3-signed `InMemoryZoneHandler` behind a `Catalog`,
//! queried on the wire (DO=1), validated by the real `DnssecDnsHandle` through an in-process
//! `DnsHandle` adapter (which also answers the validator's DNSKEY queries from the Catalog).
//! Trust anchor = the zone key; signing and validation clocks come from `vrt::VTime`.
//!
//! Clauses judged here:
//!   * `e2e-own-proof-rejected` (completeness): the server's response agrees with RefAuth
//!     (rcode / kind) and the validator rejects it. `side` says whether the server's NSEC3 set
//!     lacked a part of the RFC 5155 §7.2 proof (server) or was complete (validator).
//!   * `e2e-secure-claim-false` (soundness seen end to end): the validator accepts as Secure a
//!     response whose claim is false of the zone.
//!   * `chain-mismatch`: hickory's NSEC3 chain vs. N3(Z): every existing name incl. ENTs must own
//!     an NSEC3 RR (insecure delegations optional under opt-out), nothing else may, the ring must
//!     be closed in hash order, bitmaps must show the authoritative types.

use std::collections::{BTreeMap, BTreeSet};
use std::net::SocketAddr;
use std::pin::Pin;
use std::sync::{Arc, Mutex};
use std::time::Duration;

use futures::stream::{self, Stream, StreamExt};
use hickory_net::dnssec::DnssecDnsHandle;
use hickory_net::xfer::{DnsHandle, Protocol};
use hickory_net::{DnsError, NetError};
use hickory_proto::dnssec::crypto::Ed25519SigningKey;
use hickory_proto::dnssec::rdata::{DNSSECRData, DNSKEY};
use hickory_proto::dnssec::{DnssecSigner, Proof, SigningKey, TrustAnchors};
use hickory_proto::op::{DnsRequest, DnsRequestOptions, DnsResponse, Query as HQuery};
use hickory_proto::rr::{LowerName, RData, Record, RecordType};
use hickory_proto::serialize::binary::{BinDecoder, BinEncoder};
use hickory_server::dnssec::NxProofKind;
use hickory_server::server::{Request, RequestHandler, ResponseHandler, ResponseInfo};
use hickory_server::store::in_memory::InMemoryZoneHandler;
use hickory_server::zone_handler::{AxfrPolicy, Catalog, MessageResponse, ZoneHandler, ZoneType};
use serde_json::{json, Value};

use crate::denial::{self, base32hex, Claim, HashParams, Hasher, N3};
use crate::refzone::{self, ty, Kind, Name, Zone};
use crate::vrt::{self, VRuntime, VTime};
use crate::{hname, Runner, ZParams, QTYPES};
use vh::mon::{self, hex, unhex};
use vh::prng::{fnv64, Rng};
use vh::refwire::{self, WHeader};

const TTL: u32 = 300;
/// Ed25519 PKCS#8 v2 document, fixed so that runs are reproducible bit for bit (same as C10).
const KEY_PKCS8: &str = "3051020101300506032b657004220420ccca7de7774f637cfc31eb065c31c05a553f186ea189b1beb95972051aaae5178121003edf63caff0192ba3ce098c9e5c8300e5ff0fad262cd33be0933331c8fe9111d";

pub fn runtime() -> tokio::runtime::Runtime {
    tokio::runtime::Builder::new_current_thread().enable_time().build().expect("tokio runtime")
}

// ---------------------------------------------------------------------------------------------
// server

#[derive(Clone, Default)]
struct Recorder(Arc<Mutex<Vec<Vec<u8>>>>);

#[async_trait::async_trait]
impl ResponseHandler for Recorder {
    async fn send_response<'a>(
        &mut self,
        response: MessageResponse<
            '_,
            'a,
            impl Iterator<Item = &'a Record> + Send + 'a,
            impl Iterator<Item = &'a Record> + Send + 'a,
            impl Iterator<Item = &'a Record> + Send + 'a,
            impl Iterator<Item = &'a Record> + Send + 'a,
        >,
    ) -> Result<ResponseInfo, NetError> {
        let mut buf = Vec::new();
        let mut enc = BinEncoder::new(&mut buf);
        let info = response.destructive_emit(&mut enc)?;
        self.0.lock().unwrap().push(buf);
        Ok(info)
    }
}

/// hickory's NSEC3 RR as the harness sees it
#[derive(Clone, Debug)]
pub struct HkN3 {
    pub zone: Name,
    pub hp: HashParams,
    pub n3: N3,
}

pub struct Server {
    cat: Arc<Catalog>,
    pub chain: Vec<HkN3>,
    anchors: Arc<TrustAnchors>,
}

fn signer(origin: &hickory_proto::rr::Name) -> Result<(DnssecSigner, Arc<TrustAnchors>), String> {
    let key = Ed25519SigningKey::from_pkcs8(&unhex(KEY_PKCS8).into()).map_err(|e| e.to_string())?;
    let pubk = key.to_public_key().map_err(|e| e.to_string())?;
    let mut ta = TrustAnchors::empty();
    ta.insert(&pubk);
    Ok((DnssecSigner::new(DNSKEY::from_key(&pubk), Box::new(key), origin.clone(), Duration::from_secs(86400 * 30)), Arc::new(ta)))
}

fn to_record(owner: &Name, t: u16, rd: &[u8]) -> Result<Record, String> {
    let name = vh::hk::to_name(owner)?;
    let mut dec = BinDecoder::new(rd);
    let sub = dec.split_off(rd.len()).map_err(|e| format!("rdata slice: {e}"))?;
    let data = RData::read(sub, RecordType::from(t)).map_err(|e| format!("rdata of type {t}: {e}"))?;
    Ok(Record::from_rdata(name, TTL, data))
}

fn unbase32hex(s: &[u8]) -> Option<Vec<u8>> {
    let mut out = Vec::new();
    let mut acc: u32 = 0;
    let mut bits = 0;
    for c in s {
        let v = match c.to_ascii_lowercase() {
            c @ b'0'..=b'9' => c - b'0',
            c @ b'a'..=b'v' => c - b'a' + 10,
            _ => return None,
        } as u32;
        acc = ((acc << 5) | v) & 0xfff;
        bits += 5;
        if bits >= 8 {
            out.push(((acc >> (bits - 8)) & 0xff) as u8);
            bits -= 8;
        }
    }
    Some(out)
}

pub fn build_server(z: &Zone, p: &ZParams) -> Result<Server, String> {
    let origin = vh::hk::to_name(&z.apex)?;
    let nx = NxProofKind::Nsec3 { algorithm: Default::default(), salt: Arc::from(p.hp.salt.clone().into_boxed_slice()), iterations: p.hp.iterations, opt_out: p.opt_out };
    let mut h: InMemoryZoneHandler<VRuntime> = InMemoryZoneHandler::empty(origin.clone(), ZoneType::Primary, AxfrPolicy::Deny, Some(nx));
    let serial = z
        .rrset(&z.apex, ty::SOA)
        .and_then(|v| refzone::soa_serial_offset(&v[0]).map(|o| u32::from_be_bytes([v[0][o], v[0][o + 1], v[0][o + 2], v[0][o + 3]])))
        .ok_or("zone without SOA")?;
    let mut recs = z.records();
    recs.sort_by_key(|(_, t, _)| *t != ty::SOA);
    for (o, t, rd) in &recs {
        let r = to_record(o, *t, rd)?;
        if !h.upsert_mut(r, serial) {
            return Err(format!("hickory refused {} {}", refzone::show(o), refzone::type_name(*t)));
        }
    }
    let (sg, anchors) = signer(&origin)?;
    h.add_zone_signing_key_mut(sg).map_err(|e| format!("add key: {e}"))?;
    h.secure_zone_mut().map_err(|e| format!("sign zone: {e}"))?;
    // hickory's chain, read from the store
    let mut chain = Vec::new();
    for (k, set) in h.records_get_mut().iter() {
        if k.record_type != RecordType::NSEC3 {
            continue;
        }
        for rec in set.records_without_rrsigs() {
            let RData::DNSSEC(DNSSECRData::NSEC3(n)) = &rec.data else { continue };
            let labels = vh::hk::labels_of(&rec.name);
            let Some(hash) = labels.first().and_then(|l| unbase32hex(l)) else {
                return Err(format!("NSEC3 owner {} is not base32hex", rec.name));
            };
            chain.push(HkN3 {
                zone: refzone::fold(&labels[1..]),
                hp: HashParams { salt: n.salt().to_vec(), iterations: n.iterations() },
                n3: N3 { hash, next: n.next_hashed_owner_name().to_vec(), types: n.type_bit_maps().map(u16::from).collect(), opt_out: n.opt_out(), of: Vec::new() },
            });
        }
    }
    let mut cat = Catalog::new();
    cat.upsert(LowerName::from(&origin), vec![Arc::new(h) as Arc<dyn ZoneHandler>]);
    Ok(Server { cat: Arc::new(cat), chain, anchors })
}

fn src() -> SocketAddr {
    "192.0.2.9:5353".parse().unwrap()
}

async fn ask_catalog(cat: &Catalog, wire: Vec<u8>) -> Result<Vec<u8>, String> {
    let req = Request::from_bytes(wire, src(), Protocol::Tcp).map_err(|e| format!("request did not parse: {e}"))?;
    let rec = Recorder::default();
    cat.handle_request::<_, VTime>(&req, rec.clone()).await;
    let mut out = std::mem::take(&mut *rec.0.lock().unwrap());
    if out.len() != 1 {
        return Err(format!("{} responses", out.len()));
    }
    Ok(out.pop().unwrap())
}

fn query_wire(q: &Name, t: u16) -> Vec<u8> {
    let mut b = Vec::new();
    refwire::put_header(&mut b, &WHeader { id: 0x0909, flags: 0, qd: 1, an: 0, ns: 0, ar: 1 });
    refwire::put_question(&mut b, q, t, 1);
    b.push(0);
    b.extend_from_slice(&ty::OPT.to_be_bytes());
    b.extend_from_slice(&4096u16.to_be_bytes());
    b.extend_from_slice(&[0, 0, 0x80, 0]);
    b.extend_from_slice(&0u16.to_be_bytes());
    b
}

/// upstream of the validator: the Catalog, in process
#[derive(Clone)]
struct CatHandle {
    cat: Arc<Catalog>,
}

impl DnsHandle for CatHandle {
    type Response = Pin<Box<dyn Stream<Item = Result<DnsResponse, NetError>> + Send>>;
    type Runtime = VRuntime;
    fn send(&self, request: DnsRequest) -> Self::Response {
        let cat = self.cat.clone();
        Box::pin(stream::once(async move {
            let wire = request.to_vec().map_err(|e| NetError::from(format!("cannot encode request: {e}")))?;
            let out = ask_catalog(&cat, wire).await.map_err(NetError::from)?;
            DnsResponse::from_buffer(out).map_err(|e| NetError::from(format!("undecodable server response: {e}")))
        }))
    }
}

// ---------------------------------------------------------------------------------------------
// what the server said (own wire walker), what the validator said

#[derive(Clone, Debug, PartialEq, Eq)]
enum RespClaim {
    Positive,
    Denial(Claim),
    Referral,
    Other(String),
}

#[derive(Debug)]
struct ServerObs {
    rcode: u8,
    claim: RespClaim,
    nsec3: Vec<HkN3>,
    answer_types: Vec<u16>,
    soa: bool,
}

fn parse_nsec3_rdata(rd: &[u8]) -> Option<(u8, u8, u16, Vec<u8>, Vec<u8>, BTreeSet<u16>)> {
    let alg = *rd.first()?;
    let flags = *rd.get(1)?;
    let it = u16::from_be_bytes([*rd.get(2)?, *rd.get(3)?]);
    let sl = *rd.get(4)? as usize;
    let salt = rd.get(5..5 + sl)?.to_vec();
    let hl = *rd.get(5 + sl)? as usize;
    let next = rd.get(6 + sl..6 + sl + hl)?.to_vec();
    let mut off = 6 + sl + hl;
    let mut types = BTreeSet::new();
    while off < rd.len() {
        let win = *rd.get(off)? as u16;
        let len = *rd.get(off + 1)? as usize;
        let bm = rd.get(off + 2..off + 2 + len)?;
        for (i, b) in bm.iter().enumerate() {
            for bit in 0..8 {
                if b & (0x80 >> bit) != 0 {
                    types.insert(win * 256 + (i as u16) * 8 + bit);
                }
            }
        }
        off += 2 + len;
    }
    Some((alg, flags, it, salt, next, types))
}

fn observe_server(msg: &[u8], q: &Name) -> Result<ServerObs, String> {
    let w = refwire::walk(msg)?;
    let rcode = w.header.rcode_low();
    let qf = refzone::fold(q);
    let eff_len = qf.len() - refzone::is_wildcard(&qf) as usize;
    let mut answer_types = Vec::new();
    let mut expansion: Option<usize> = None;
    for r in &w.sections[0] {
        if r.rtype == ty::RRSIG {
            let rd = r.rdata(msg);
            if rd.len() < 18 {
                return Err("short RRSIG".into());
            }
            let labels = rd[3] as usize;
            if refzone::fold(&r.owner.labels) == qf && labels < eff_len {
                expansion = Some(expansion.map_or(labels, |x: usize| x.min(labels)));
            }
        } else {
            answer_types.push(r.rtype);
        }
    }
    let mut nsec3 = Vec::new();
    let mut soa = false;
    let mut ns_other = false;
    for r in &w.sections[1] {
        match r.rtype {
            x if x == ty::SOA => soa = true,
            x if x == ty::NS => ns_other = true,
            x if x == ty::NSEC3 => {
                let (alg, flags, it, salt, next, types) = parse_nsec3_rdata(r.rdata(msg)).ok_or("bad NSEC3 RDATA")?;
                if alg != 1 {
                    return Err(format!("NSEC3 hash algorithm {alg}"));
                }
                let labels = refzone::fold(&r.owner.labels);
                let hash = labels.first().and_then(|l| unbase32hex(l)).ok_or("NSEC3 owner is not base32hex")?;
                nsec3.push(HkN3 { zone: labels[1..].to_vec(), hp: HashParams { salt, iterations: it }, n3: N3 { hash, next, types, opt_out: flags & 1 == 1, of: Vec::new() } });
            }
            _ => {}
        }
    }
    let claim = if !answer_types.is_empty() {
        match expansion {
            Some(l) => RespClaim::Denial(Claim::Expansion { labels: l }),
            None => RespClaim::Positive,
        }
    } else if rcode == 3 {
        RespClaim::Denial(Claim::NxDomain)
    } else if rcode == 0 && soa {
        RespClaim::Denial(Claim::NoData)
    } else if rcode == 0 && ns_other {
        RespClaim::Referral
    } else {
        RespClaim::Other(format!("rcode {rcode}, empty"))
    };
    Ok(ServerObs { rcode, claim, nsec3, answer_types, soa })
}

#[derive(Debug, Clone, PartialEq)]
enum VOut {
    /// returned Ok and every judged record carries `Secure`
    AcceptedSecure,
    /// returned Ok, but some record is not Secure (worst proof)
    AcceptedWith(Proof),
    /// `DnsError::Nsec { proof }`
    Rejected(Proof),
    Error(String),
    Panic(String),
}

impl VOut {
    fn tag(&self) -> String {
        match self {
            VOut::AcceptedSecure => "accepted-secure".into(),
            VOut::AcceptedWith(p) => format!("records-{p:?}").to_lowercase(),
            VOut::Rejected(p) => format!("nsec-{p:?}").to_lowercase(),
            VOut::Error(_) => "error".into(),
            VOut::Panic(_) => "panic".into(),
        }
    }
}

fn validate(rt: &tokio::runtime::Runtime, v: &DnssecDnsHandle<CatHandle>, q: &Name, t: u16) -> VOut {
    let hq = HQuery::new(hname(q), RecordType::from(t));
    let r = mon::catch(|| rt.block_on(async { v.lookup(hq, DnsRequestOptions::default()).next().await }));
    match r {
        Err(p) => VOut::Panic(format!("{} at {}", p.message, p.site())),
        Ok(None) => VOut::Error("empty stream".into()),
        Ok(Some(Err(e))) => match e {
            NetError::Dns(DnsError::Nsec { proof, .. }) => VOut::Rejected(proof),
            other => VOut::Error(other.to_string().chars().take(160).collect()),
        },
        Ok(Some(Ok(resp))) => {
            let mut worst = Proof::Secure;
            let mut seen = false;
            let judged = |r: &Record| !matches!(r.record_type(), RecordType::RRSIG | RecordType::OPT);
            let negative = resp.answers.is_empty();
            for r in resp.answers.iter().filter(|r| judged(r)) {
                seen = true;
                if (r.proof as u8) < (worst as u8) {
                    worst = r.proof;
                }
            }
            if negative {
                for r in resp.authorities.iter().filter(|r| judged(r) && matches!(r.record_type(), RecordType::SOA | RecordType::NSEC3)) {
                    seen = true;
                    if (r.proof as u8) < (worst as u8) {
                        worst = r.proof;
                    }
                }
            }
            if seen && worst == Proof::Secure {
                VOut::AcceptedSecure
            } else if !seen {
                VOut::AcceptedWith(Proof::Indeterminate)
            } else {
                VOut::AcceptedWith(worst)
            }
        }
    }
}

// ---------------------------------------------------------------------------------------------
// chain comparison

fn name_class(z: &Zone, n: &Name) -> &'static str {
    if *n == z.apex {
        "apex"
    } else if z.occluded(n) {
        "occluded"
    } else if z.is_delegation(n) {
        if z.rrset(n, ty::DS).is_some() {
            "secure-delegation"
        } else {
            "insecure-delegation"
        }
    } else if z.node(n).is_none() {
        if refzone::is_wildcard(n) {
            "ent-asterisk"
        } else {
            "ent"
        }
    } else if refzone::is_wildcard(n) {
        "wildcard"
    } else {
        "data"
    }
}

fn compare_chain(r: &mut Runner, z: &Zone, p: &ZParams, srv: &Server) {
    r.rep.eval();
    r.rep.count("e2e/chain_compared");
    let mut hs = Hasher::new(&p.hp);
    let case = || json!({"kind": "chain", "zone": z.to_json(), "params": p.to_json()});
    let min: BTreeMap<Vec<u8>, Name> = denial::nsec3_names(z, p.opt_out).into_iter().map(|n| (hs.h(&n), n)).collect();
    let max: BTreeMap<Vec<u8>, Name> = denial::nsec3_names(z, false).into_iter().map(|n| (hs.h(&n), n)).collect();
    // every name the zone file mentions (to explain unexpected owners)
    let mut known: BTreeMap<Vec<u8>, Name> = BTreeMap::new();
    for o in z.owners() {
        let mut k = o.len();
        while k >= z.apex.len() && z.in_zone(o) {
            let n = refzone::suffix(o, k);
            known.insert(hs.h(&n), n);
            if k == 0 {
                break;
            }
            k -= 1;
        }
    }
    let theirs: BTreeMap<Vec<u8>, &HkN3> = srv.chain.iter().map(|x| (x.n3.hash.clone(), x)).collect();
    let mut problems: Vec<(String, Value)> = Vec::new();
    if theirs.len() != srv.chain.len() {
        problems.push(("duplicate-owner".into(), json!({})));
    }
    for (h, n) in &min {
        if !theirs.contains_key(h) {
            problems.push((format!("missing-owner:{}", name_class(z, n)), json!({"name": refzone::show(n)})));
        }
    }
    for (h, x) in &theirs {
        if !max.contains_key(h) {
            let cls = known.get(h).map(|n| name_class(z, n)).unwrap_or("unknown-name");
            problems.push((format!("extra-owner:{cls}"), json!({"owner_hash": hex(h), "name": known.get(h).map(|n| refzone::show(n))})));
        } else if !min.contains_key(h) {
            r.rep.count("e2e/chain_optout_insecure_delegation_kept");
        }
        if x.zone != z.apex {
            problems.push(("owner-outside-zone".into(), json!({"zone": refzone::show(&x.zone)})));
        }
        if x.hp != p.hp {
            problems.push(("parameter-mismatch".into(), json!({"salt": hex(&x.hp.salt), "iterations": x.hp.iterations})));
        }
        if x.n3.opt_out && !p.opt_out {
            problems.push(("optout-flag-set-in-plain-zone".into(), json!({})));
        }
    }
    // ring closed in hash order
    let order: Vec<&Vec<u8>> = theirs.keys().collect();
    for (i, h) in order.iter().enumerate() {
        let want = order[(i + 1) % order.len()];
        if &theirs[*h].n3.next != want {
            problems.push(("broken-link".into(), json!({"owner_hash": hex(h), "next": hex(&theirs[*h].n3.next), "expected_next": hex(want)})));
        }
    }
    // a record without the Opt-Out flag must not span an insecure delegation left out of the chain
    for (h, n) in &max {
        if theirs.contains_key(h) {
            continue;
        }
        if let Some(c) = srv.chain.iter().find(|x| x.n3.covers(h)) {
            if !c.n3.opt_out {
                problems.push((format!("left-out-name-under-non-optout-span:{}", name_class(z, n)), json!({"name": refzone::show(n)})));
            }
        }
    }
    // bitmaps: authoritative data types (RRSIG / DNSKEY / NSEC3PARAM bits and, at a delegation,
    // anything but NS and DS are not compared)
    let data_types = |s: &BTreeSet<u16>, deleg: bool| -> BTreeSet<u16> {
        s.iter().copied().filter(|t| !matches!(*t, denial::T_RRSIG | denial::T_DNSKEY | denial::T_NSEC3PARAM)).filter(|t| !deleg || *t == ty::NS || *t == ty::DS).collect()
    };
    let mine = denial::nsec3_chain(z, false, &mut hs);
    for m in &mine {
        let Some(x) = theirs.get(&m.hash) else { continue };
        let deleg = z.is_delegation(&m.of);
        let (a, b) = (data_types(&m.types, deleg), data_types(&x.n3.types, deleg));
        if a != b {
            problems.push((
                format!("bitmap:{}", name_class(z, &m.of)),
                json!({"name": refzone::show(&m.of), "expected": a.iter().map(|t| refzone::type_name(*t)).collect::<Vec<_>>(), "observed": b.iter().map(|t| refzone::type_name(*t)).collect::<Vec<_>>()}),
            ));
        }
        if deleg && x.n3.types.iter().any(|t| !matches!(*t, ty::NS | ty::DS | denial::T_RRSIG)) {
            r.rep.count("info/chain_delegation_bitmap_has_non_ns_ds_types");
        }
        if deleg && !m.types.contains(&denial::T_RRSIG) && x.n3.types.contains(&denial::T_RRSIG) {
            r.rep.count("info/chain_insecure_delegation_has_rrsig_bit");
        }
    }
    if problems.is_empty() {
        r.rep.count("e2e/chain_agrees");
    }
    for (sig, detail) in problems {
        r.report("chain-mismatch", &format!("{sig}|{}|server", p.class()), case, json!({"chain": "N3(Z): every existing name incl. empty non-terminals (insecure delegations optional under opt-out), closed ring in hash order"}), detail);
    }
}

// ---------------------------------------------------------------------------------------------
// one query end to end

struct Session {
    srv: Server,
    v: DnssecDnsHandle<CatHandle>,
    /// validators CONFIGURED with iteration limits that the zone's iteration count exceeds (only for zones
    /// with iterations >= 1): soft limit just below the zone's count (hard above it), hard limit just below it.
    /// The limits are configuration of `DnssecDnsHandle` (builder `nsec3_iteration_limits`) and must reach the
    /// decision procedure through `send()`.
    v_soft: Option<DnssecDnsHandle<CatHandle>>,
    v_hard: Option<DnssecDnsHandle<CatHandle>>,
}

fn new_session(z: &Zone, p: &ZParams) -> Result<Session, String> {
    let srv = build_server(z, p)?;
    let mk = || DnssecDnsHandle::with_trust_anchor(CatHandle { cat: srv.cat.clone() }, srv.anchors.clone());
    let v = mk();
    let it = p.hp.iterations;
    let (v_soft, v_hard) = if it >= 1 {
        (Some(mk().nsec3_iteration_limits(Some(it - 1), Some(it.saturating_add(100)))), Some(mk().nsec3_iteration_limits(Some(0), Some(it - 1))))
    } else {
        (None, None)
    };
    Ok(Session { srv, v, v_soft, v_hard })
}

fn e2e_case(z: &Zone, p: &ZParams, q: &Name, t: u16) -> Value {
    json!({"kind": "e2e", "zone": z.to_json(), "params": p.to_json(), "query": {"qname": refzone::show(q), "qtype": refzone::type_name(t)}})
}

fn n3_json(x: &HkN3) -> Value {
    json!({"owner": format!("{}.{}", String::from_utf8_lossy(&base32hex(&x.n3.hash)), refzone::show(&x.zone)), "next": String::from_utf8_lossy(&base32hex(&x.n3.next)),
        "types": x.n3.types.iter().map(|t| refzone::type_name(*t)).collect::<Vec<_>>(), "opt_out": x.n3.opt_out, "iterations": x.hp.iterations, "salt": hex(&x.hp.salt)})
}

fn run_query(r: &mut Runner, rt: &tokio::runtime::Runtime, ses: &Session, z: &Zone, zhash: u64, p: &ZParams, q: &Name, t: u16) {
    r.rep.eval();
    r.rep.count("e2e/queries");
    let mut h = zhash.to_le_bytes().to_vec();
    h.extend(refzone::wire_name(q));
    h.extend_from_slice(&t.to_be_bytes());
    h.extend_from_slice(&p.hp.salt);
    h.extend_from_slice(&[p.hp.iterations as u8, p.opt_out as u8, 0xe2]);
    let e = refzone::ref_auth(z, q, t);
    r.rep.count(&format!("e2e/kind/{}", e.kind.as_str()));
    // 1. what the server says
    let wire = match mon::catch(|| rt.block_on(ask_catalog(&ses.srv.cat, query_wire(q, t)))) {
        Ok(Ok(w)) => w,
        Ok(Err(err)) => {
            r.rep.count("e2e/server_no_response");
            let _ = err;
            return;
        }
        Err(_) => {
            r.rep.count("e2e/server_panic_not_judged_here");
            return;
        }
    };
    let so = match observe_server(&wire, q) {
        Ok(s) => s,
        Err(err) => {
            r.rep.count("e2e/server_response_unreadable");
            let _ = err;
            return;
        }
    };
    if !so.nsec3.is_empty() {
        r.rep.nontrivial(fnv64(&h));
        r.rep.count("e2e/responses_with_nsec3");
    }
    // 2a. configured iteration limits (statement: above the soft limit never Secure, above the hard limit Bogus)
    if !so.nsec3.is_empty() && matches!(so.claim, RespClaim::Denial(_)) {
        if let Some(vs) = &ses.v_soft {
            let o = validate(rt, vs, q, t);
            r.rep.count(&format!("e2e/limits/soft-exceeded/{}", o.tag()));
            if o == VOut::AcceptedSecure {
                r.report("e2e-soft-limit-secure", &format!("iterations={}|soft={}|configured-handle", p.hp.iterations, p.hp.iterations - 1), || e2e_case(z, p, q, t),
                    json!("not Secure: the zone's NSEC3 iteration count exceeds the soft limit configured on the DnssecDnsHandle"), json!({"validator": format!("{o:?}")}));
            }
        }
        if let Some(vh) = &ses.v_hard {
            let o = validate(rt, vh, q, t);
            r.rep.count(&format!("e2e/limits/hard-exceeded/{}", o.tag()));
            if matches!(o, VOut::AcceptedSecure | VOut::AcceptedWith(Proof::Insecure) | VOut::Rejected(Proof::Insecure)) {
                r.report("e2e-hard-limit-not-bogus", &format!("iterations={}|hard={}|configured-handle|{}", p.hp.iterations, p.hp.iterations - 1, o.tag()), || e2e_case(z, p, q, t),
                    json!("Bogus: the zone's NSEC3 iteration count exceeds the hard limit configured on the DnssecDnsHandle"), json!({"validator": format!("{o:?}")}));
            }
        }
    }
    // 2. what the validator says
    let vo = validate(rt, &ses.v, q, t);
    r.rep.count(&format!("e2e/validator/{}", vo.tag()));
    if vo == VOut::AcceptedSecure {
        r.rep.count("e2e/accepted_secure");
    }
    let observed = || {
        json!({"server": {"rcode": so.rcode, "claim": format!("{:?}", so.claim), "answer_types": so.answer_types.iter().map(|t| refzone::type_name(*t)).collect::<Vec<_>>(), "soa": so.soa,
            "nsec3": so.nsec3.iter().map(n3_json).collect::<Vec<_>>(), "wire": hex(&wire)}, "validator": format!("{vo:?}")})
    };
    let n3s: Vec<&N3> = so.nsec3.iter().filter(|x| x.zone == z.apex && x.hp == p.hp).map(|x| &x.n3).collect();
    let mut hs = Hasher::new(&p.hp);
    // does hickory's chain lack the NSEC3 RR of a name a proof about q involves? (then whatever
    // goes wrong for q is the chain's fault, reported under `chain-mismatch`)
    let chain_lacks_relevant = {
        let must: Vec<Name> = denial::nsec3_names(z, p.opt_out);
        let mut rel: Vec<Name> = Vec::new();
        let qf = refzone::fold(q);
        for k in z.apex.len()..=qf.len() {
            let a = refzone::suffix(&qf, k);
            rel.push(refzone::wildcard_of(&a));
            rel.push(a);
        }
        rel.iter().any(|n| must.contains(n) && {
            let h = hs.h(n);
            !ses.srv.chain.iter().any(|x| x.n3.hash == h)
        })
    };
    // 3. soundness seen end to end
    if let (VOut::AcceptedSecure, RespClaim::Denial(claim)) = (&vo, &so.claim) {
        let truth = denial::claim_truth(z, q, t, claim);
        if truth.refutes() {
            // whose fault? (i) hickory's chain lacks the NSEC3 RR of a name a proof about q
            // involves (the validator was handed a consistent proof of a different zone) => server;
            // (ii) otherwise the validator, with the same discriminators as at H2
            let (cause, side) = if chain_lacks_relevant {
                ("chain-lacks-relevant-name".to_string(), "server-chain-defect")
            } else {
                let case = crate::H2Case {
                    q: q.clone(),
                    t,
                    claim: claim.clone(),
                    soa: so.soa,
                    s: so.nsec3.iter().map(|x| crate::Rec::new(&x.zone, &x.hp, x.n3.clone(), "genuine")).collect(),
                    limits: crate::LIMIT_CONFIGS[0],
                    mode: "e2e",
                };
                let mut env = crate::Env::new(z, p, 0);
                let cause = if case.s.is_empty() { None } else { crate::cause_of(&mut env, &case) };
                (cause.map(|c| c.to_string()).unwrap_or_else(|| format!("other:{}", truth.reason())), "validator")
            };
            r.report(
                "e2e-secure-claim-false",
                &format!("{}|{cause}|{}|{side}", claim.as_str(), p.class()),
                || e2e_case(z, p, q, t),
                json!({"reference": e.to_json(), "why": format!("the server's response claims {:?}, which is false of the zone ({}); the validator must not accept it as Secure", claim, truth.reason())}),
                observed(),
            );
        } else {
            r.rep.count(&format!("e2e/secure_denial/{}", claim.as_str()));
        }
    }
    // 4. completeness: is the server's answer the right one, and was it accepted?
    let (judged, server_ok, claim) = match e.kind {
        Kind::Answer => (true, so.claim == RespClaim::Positive && so.rcode == 0, None),
        Kind::WildcardAnswer => {
            let ce = e.first_step().closest_encloser.clone().unwrap_or_default();
            let c = Claim::Expansion { labels: ce.len() };
            (true, so.claim == RespClaim::Denial(c.clone()), Some(c))
        }
        Kind::Nodata | Kind::EntNodata | Kind::WildcardNodata => (true, so.claim == RespClaim::Denial(Claim::NoData), Some(Claim::NoData)),
        Kind::Nxdomain => (true, so.claim == RespClaim::Denial(Claim::NxDomain), Some(Claim::NxDomain)),
        _ => (false, false, None),
    };
    if !judged {
        r.rep.count(&format!("e2e/dontcare/kind-{}", e.kind.as_str()));
        return;
    }
    if !server_ok {
        r.rep.count(&format!("e2e/dontcare/server-answer-differs-from-refauth(C10)/{}", e.kind.as_str()));
        return;
    }
    if let Some(c) = &claim {
        // opt-out corner: the closest encloser is an empty non-terminal that exists only because
        // of insecure delegations and therefore (RFC 5155 §7.1) has no NSEC3 RR; a proof relative
        // to the closest *provable* encloser may then be impossible – nothing to demand
        if p.opt_out && !matches!(c, Claim::Expansion { .. }) && !z.exists(q) && denial::provable_encloser(z, q, true) != z.closest_encloser(q) {
            r.rep.count("e2e/dontcare/optout-encloser-without-nsec3");
            return;
        }
        // same corner, the query name itself: an empty non-terminal without NSEC3 RR cannot get
        // the RFC 5155 §8.5 proof (matching record) at all; RFC 5155 does not say what then
        if p.opt_out && e.kind == Kind::EntNodata && !denial::nsec3_names(z, true).contains(&refzone::fold(q)) {
            r.rep.count("e2e/dontcare/optout-ent-without-nsec3");
            return;
        }
        // same corner once more, the source of synthesis: wildcard NODATA whose `*.<closest encloser>` is
        // an empty non-terminal that exists only through insecure delegations below it has no NSEC3 RR
        // under Opt-Out (§7.1), so the matching record §7.2.5/§8.7 ask for cannot be attached by any server
        if p.opt_out && e.kind == Kind::WildcardNodata {
            let ce = e.first_step().closest_encloser.clone().unwrap_or_default();
            if !denial::nsec3_names(z, true).contains(&refzone::fold(&refzone::child(b"*", &ce))) {
                r.rep.count("e2e/dontcare/optout-wildcard-ent-without-nsec3");
                return;
            }
        }
    }
    r.rep.count("e2e/judged_complete");
    r.rep.count(&format!("e2e/judged_complete/{}", e.kind.as_str()));
    let accepted = match &vo {
        VOut::AcceptedSecure => true,
        // an Opt-Out span makes the denial insecure, not bogus (RFC 5155 §9.2): fine
        VOut::Rejected(Proof::Insecure) | VOut::AcceptedWith(Proof::Insecure) => p.opt_out,
        _ => false,
    };
    if accepted {
        r.rep.count("e2e/own_proof_accepted");
        r.rep.count(&format!("e2e/own_proof_accepted/{}", e.kind.as_str()));
        r.rep.sample(|| json!({"e2e": e2e_case(z, p, q, t)["query"], "kind": e.kind.as_str(), "validator": vo.tag(), "nsec3_in_response": so.nsec3.len()}));
        return;
    }
    // classify
    let (feature, side) = match &claim {
        Some(_) if chain_lacks_relevant => ("chain-lacks-relevant-name".to_string(), "server-chain-defect"),
        None => {
            // positive answer: no denial needed; genuine NSEC3 RRs in the authority section must
            // not turn a validly signed answer into a failure
            (if so.nsec3.is_empty() { "no-nsec3".to_string() } else { "nsec3-in-authority".to_string() }, "validator")
        }
        Some(c) => {
            let roles = denial::roles(z, q, t, c, p.opt_out, &n3s, &mut hs);
            let mut f = format!("{}:missing={}", roles.sub, roles.missing());
            if !roles.complete() {
                // server side: what is missing says it all
            } else if roles.sub != "direct" {
                // how far below the closest (provable) encloser the query name sits
                f.push_str(if q.len() - roles.ce.len() > 1 { ",depth=2+" } else { ",depth=1" });
            } else {
                if *q == z.apex {
                    f.push_str(",apex");
                }
                if e.kind == Kind::EntNodata {
                    f.push_str(",ent");
                }
                if z.is_delegation(q) {
                    f.push_str(",delegation");
                }
            }
            if t == ty::DS {
                f.push_str(",ds");
            }
            (f, if roles.complete() { "validator" } else { "server" })
        }
    };
    r.report(
        "e2e-own-proof-rejected",
        &format!("{}|{}|{}|{}|{}", e.kind.as_str(), feature, vo.tag(), p.class(), side),
        || e2e_case(z, p, q, t),
        json!({"reference": e.to_json(), "why": "the server's response is the right one for this zone and query; its own NSEC3 proof must be accepted by the validator"}),
        observed(),
    );
}

pub fn run_zone(r: &mut Runner, rt: &tokio::runtime::Runtime, rng: &mut Rng, z: &Zone, p: &ZParams, qnames: &[Name], full: bool) {
    vrt::clock_reset(1_700_000_000);
    let ses = match mon::catch(|| new_session(z, p)) {
        Ok(Ok(s)) => s,
        Ok(Err(e)) => {
            r.rep.inconclusive(&format!("zone could not be loaded into / signed by hickory: {e}"));
            r.rep.count("e2e/zone_build_failed");
            return;
        }
        Err(pn) => {
            r.rep.inconclusive(&format!("panic while signing a zone: {} at {}", pn.message, pn.site()));
            return;
        }
    };
    r.rep.count("e2e/zones");
    compare_chain(r, z, p, &ses.srv);
    let zhash = fnv64(&z.canonical_bytes());
    for q in qnames {
        for t in QTYPES {
            if !full && !rng.chance(1, 3) {
                continue;
            }
            run_query(r, rt, &ses, z, zhash, p, q, t);
        }
    }
}

pub fn replay(r: &mut Runner, c: &Value) -> Result<(), String> {
    let z = Zone::from_json(&c["zone"])?;
    let p = ZParams::from_json(&c["params"]);
    vrt::clock_reset(1_700_000_000);
    let ses = new_session(&z, &p)?;
    if c["kind"].as_str() == Some("chain") {
        compare_chain(r, &z, &p, &ses.srv);
        return Ok(());
    }
    let q = refzone::name(c["query"]["qname"].as_str().ok_or("query.qname")?);
    let t = refzone::type_code(c["query"]["qtype"].as_str().ok_or("query.qtype")?).ok_or("query.qtype")?;
    let rt = runtime();
    run_query(r, &rt, &ses, &z, 0, &p, &q, t);
    Ok(())
}
