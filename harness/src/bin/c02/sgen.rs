//! Generator of struct-level specs (see `sbuild.rs` for the layout): field values from the seeded
//! PRNG, with boundary values forced in a fixed share of the cases (the *mode* of a message is a
//! function of its index, so every boundary class is hit at every seed).

use serde_json::{json, Value};

use vh::gen::{self, NameStyle};
use vh::mon::hex;
use vh::prng::Rng;
use vh::refwire::Labels;

use crate::sbuild::{self, wire_of_name};

/// Every record kind the spec language knows (= every `RData` variant with a public constructor).
pub const KINDS: &[&str] = &[
    "A", "AAAA", "ANAME", "CAA", "CERT", "CNAME", "CSYNC", "HINFO", "HTTPS", "MX", "NAPTR", "NS", "NULL", "OPENPGPKEY", "PTR", "SMIMEA", "SOA", "SRV", "SSHFP",
    "SVCB", "TLSA", "TXT", "DNSKEY", "CDNSKEY", "DS", "CDS", "KEY", "NSEC", "NSEC3", "NSEC3PARAM", "RRSIG", "SIG", "Unknown",
];

#[derive(Clone, Copy, PartialEq, Eq, Debug)]
pub enum Mode {
    Random,
    Name255,
    Name254,
    Label63,
    Labels127,
    Root,
    Empty,
    Max,
    Extremes,
    Msg65535,
}

const MODES: &[Mode] = &[
    Mode::Name255,
    Mode::Random,
    Mode::Name254,
    Mode::Empty,
    Mode::Label63,
    Mode::Random,
    Mode::Labels127,
    Mode::Max,
    Mode::Root,
    Mode::Random,
    Mode::Extremes,
    Mode::Random,
    Mode::Name255,
    Mode::Empty,
    Mode::Random,
    Mode::Random,
];

pub struct SGen<'a> {
    pub rng: &'a mut Rng,
    mode: Mode,
    fam: Vec<Labels>,
}

fn nhex(l: &[Vec<u8>]) -> String {
    hex(&wire_of_name(l))
}

fn wlen(l: &[Vec<u8>]) -> usize {
    l.iter().map(|x| x.len() + 1).sum::<usize>() + 1
}

fn flip(rng: &mut Rng, l: &mut [Vec<u8>]) {
    for lab in l.iter_mut() {
        for c in lab.iter_mut() {
            if c.is_ascii_alphabetic() && rng.bool() {
                *c ^= 0x20;
            }
        }
    }
}

/// Prepend labels to `suffix` until the name is exactly `target` wire octets long.
fn name_exact(rng: &mut Rng, target: usize, suffix: &[Vec<u8>], one_octet_labels: bool) -> Labels {
    let mut out: Labels = suffix.to_vec();
    let mut rem = target.saturating_sub(wlen(&out));
    let mut front: Labels = Vec::new();
    while rem >= 2 {
        let maxl = (rem - 1).min(63);
        let mut l = if one_octet_labels {
            1
        } else if rng.chance(2, 3) {
            maxl
        } else {
            rng.urange(1, maxl)
        };
        // never leave a single octet over (a label needs 2)
        if rem - (l + 1) == 1 {
            if l > 1 {
                l -= 1;
            } else {
                l += 1;
            }
        }
        let lab: Vec<u8> = if rng.chance(1, 6) { rng.bytes(l) } else { (0..l).map(|_| *rng.pick(b"abcdefghijklmnopqrstuvwxyzABCXYZ0123456789-_")).collect() };
        front.push(lab);
        rem -= l + 1;
    }
    front.append(&mut out);
    front
}

impl<'a> SGen<'a> {
    pub fn new(rng: &'a mut Rng, index: u64) -> Self {
        // (the shards take every nshards-th index: the mixing keeps every shard on all modes)
        let mode = MODES[((index ^ (index >> 4) ^ (index >> 9)) % MODES.len() as u64) as usize];
        let mode = if index % 997 == 500 { Mode::Msg65535 } else { mode };
        let mut g = SGen { rng, mode, fam: Vec::new() };
        g.make_family();
        g
    }

    fn boundary(&mut self) -> bool {
        // inside a boundary mode half of the eligible fields take the boundary value
        self.mode != Mode::Random && self.rng.bool()
    }

    fn make_family(&mut self) {
        let rng = &mut *self.rng;
        let style = match rng.below(6) {
            0 => NameStyle::Binary,
            1 | 2 => NameStyle::Host,
            _ => NameStyle::Small,
        };
        let nb = rng.urange(1, 2);
        for _ in 0..nb {
            let n = rng.urange(1, 3);
            let base: Labels = (0..n).map(|_| gen::label(rng, style, 12)).collect();
            self.fam.push(base);
        }
        let extra = rng.urange(2, 6);
        for _ in 0..extra {
            let mut x = rng.pick(&self.fam).clone();
            match rng.below(4) {
                0 | 1 => x.insert(0, gen::label(rng, style, 10)),
                2 => flip(rng, &mut x),
                _ => {
                    if !x.is_empty() {
                        x[0] = gen::label(rng, NameStyle::Host, 8);
                    }
                }
            }
            if wlen(&x) <= 255 {
                self.fam.push(x);
            }
        }
        // boundary members share a suffix with the family (compression against them is possible)
        let suffix = rng.pick(&self.fam).clone();
        let suffix = if wlen(&suffix) > 60 { Vec::new() } else { suffix };
        match self.mode {
            Mode::Name255 => {
                for _ in 0..2 {
                    let n = name_exact(rng, 255, &suffix, false);
                    self.fam.push(n);
                }
                let mut v = self.fam.last().unwrap().clone();
                flip(rng, &mut v);
                self.fam.push(v);
                // the canonical split 63.63.63.61
                if rng.bool() {
                    let n = name_exact(rng, 255, &[], false);
                    self.fam.push(n);
                }
            }
            Mode::Name254 => {
                let n = name_exact(rng, 254, &suffix, false);
                self.fam.push(n);
                let n = name_exact(rng, 254, &[], false);
                self.fam.push(n);
            }
            Mode::Labels127 => {
                let n = name_exact(rng, 255, &[], true);
                debug_assert_eq!(n.len(), 127);
                self.fam.push(n.clone());
                // a sibling sharing 126 labels
                let mut s = n;
                s[0] = vec![b'Z'];
                self.fam.push(s);
            }
            Mode::Label63 => {
                for _ in 0..2 {
                    let mut x = suffix.clone();
                    let l: Vec<u8> = (0..63).map(|_| *rng.pick(b"abcXYZ019-")).collect();
                    x.insert(0, l);
                    if wlen(&x) <= 255 {
                        self.fam.push(x);
                    }
                }
            }
            Mode::Root => self.fam.push(Vec::new()),
            _ => {}
        }
    }

    pub fn name(&mut self) -> Labels {
        let n = self.fam.len();
        match self.mode {
            Mode::Name255 | Mode::Name254 | Mode::Labels127 | Mode::Label63 | Mode::Root if self.rng.bool() => {
                // the boundary members are the last ones pushed
                let k = self.rng.urange(1, 3.min(n));
                self.fam[n - k].clone()
            }
            _ => {
                if self.rng.chance(1, 8) {
                    gen::any_name(self.rng)
                } else if self.rng.chance(1, 12) {
                    Vec::new()
                } else {
                    self.rng.pick(&self.fam).clone()
                }
            }
        }
    }

    fn hname(&mut self) -> String {
        let n = self.name();
        nhex(&n)
    }

    fn u16v(&mut self) -> u16 {
        if self.mode == Mode::Extremes || self.rng.chance(1, 6) {
            *self.rng.pick(&[0u16, 1, 255, 256, 0x7fff, 0x8000, 0xfffe, 0xffff])
        } else {
            self.rng.u16()
        }
    }

    fn u32v(&mut self) -> u32 {
        if self.mode == Mode::Extremes || self.rng.chance(1, 6) {
            *self.rng.pick(&[0u32, 1, 0x7fff_ffff, 0x8000_0000, 0xffff_fffe, 0xffff_ffff])
        } else {
            self.rng.next_u32()
        }
    }

    fn u8v(&mut self) -> u8 {
        if self.mode == Mode::Extremes || self.rng.chance(1, 4) {
            *self.rng.pick(&[0u8, 1, 2, 3, 4, 5, 8, 13, 15, 127, 128, 254, 255])
        } else {
            self.rng.u8()
        }
    }

    fn ttl(&mut self) -> u32 {
        if self.mode == Mode::Extremes || self.rng.chance(1, 4) {
            *self.rng.pick(&[0u32, 1, 0x7fff_ffff, 0x8000_0000, 0xffff_ffff])
        } else {
            self.rng.range(0, 604800) as u32
        }
    }

    fn class(&mut self) -> u16 {
        if self.rng.chance(1, 10) {
            *self.rng.pick(&[3u16, 4, 254, 255, 2, 0, 256, 65535])
        } else {
            1
        }
    }

    /// opaque octets: `min` is what validity demands, `max` the largest the field can hold
    fn blob(&mut self, min: usize, max: usize) -> Vec<u8> {
        let (mode, bd) = (self.mode, self.boundary());
        let n = match mode {
            Mode::Empty if bd => min,
            Mode::Max if bd => max.min(if self.rng.chance(1, 8) { 20000 } else { 600 }),
            _ => match self.rng.below(12) {
                0 => min,
                1 => self.rng.urange(min, max.min(700)),
                _ => self.rng.urange(min, max.min(48)),
            },
        };
        self.rng.bytes(n)
    }

    fn charstr(&mut self) -> Vec<u8> {
        let (mode, bd) = (self.mode, self.boundary());
        let n = match mode {
            Mode::Empty if bd => 0,
            Mode::Max if bd => 255,
            _ => match self.rng.below(14) {
                0 => 0,
                1 => 255,
                _ => self.rng.urange(0, 24),
            },
        };
        (0..n)
            .map(|_| match self.rng.below(6) {
                0 => *self.rng.pick(&gen::EDGE_BYTES),
                1 => *self.rng.pick(b"\"\\; ()\t@$"),
                _ => *self.rng.pick(b"abcdefghijklmnopqrstuvwxyzABC0123456789 =+"),
            })
            .collect()
    }

    fn types(&mut self) -> Vec<u16> {
        let mut t: Vec<u16> = Vec::new();
        let shape = if matches!(self.mode, Mode::Empty | Mode::Max | Mode::Extremes) { self.rng.below(4) } else { 4 + self.rng.below(8) };
        match shape {
            0 => {}
            1 => t.extend_from_slice(&[*self.rng.pick(&[0u16, 255, 256, 65535])]),
            2 => t.extend_from_slice(&[0, 1, 255, 256, 257, 511, 512, 32768, 65280, 65535]),
            3 => {
                // many windows
                for w in 0..self.rng.urange(3, 40) {
                    t.push(((w as u16) << 8) | self.rng.u8() as u16);
                }
            }
            4 => {}
            5 => t.push(*self.rng.pick(&[0u16, 255, 256, 65535])),
            _ => {
                for _ in 0..self.rng.urange(1, 10) {
                    t.push(if self.rng.chance(3, 4) { *self.rng.pick(&[1u16, 2, 5, 6, 15, 16, 28, 33, 43, 46, 47, 48, 50, 64, 65, 257]) } else { self.rng.u16() });
                }
            }
        }
        t.sort_unstable();
        t.dedup();
        t
    }

    fn svc_params(&mut self) -> Vec<Value> {
        // shape: 0 none, 1 single, 2 many, 3 last one empty, else random
        let shape = match self.mode {
            Mode::Empty => *self.rng.pick(&[0u64, 1, 3, 3, 3]),
            Mode::Max => 2,
            _ => self.rng.below(8),
        };
        const ALL: &[u16] = &[1, 2, 3, 4, 5, 6, 7, 8, 100, 32768, 65279, 65280, 65400, 65534];
        let mut keys: Vec<u16> = match shape {
            0 => vec![],
            1 => vec![*self.rng.pick(ALL)],
            2 => ALL.to_vec(),
            _ => ALL.iter().copied().filter(|_| self.rng.chance(1, 4)).collect(),
        };
        // keys whose value the generator leaves empty (legal only for no-default-alpn and keys
        // without a defined format)
        let mut empty: Vec<u16> = Vec::new();
        if shape == 1 && self.mode == Mode::Empty {
            keys = vec![*self.rng.pick(&[2u16, 7, 100, 65280, 65534])];
            empty.push(keys[0]);
        }
        if shape == 3 {
            // the last parameter has an empty value
            let last = *self.rng.pick(&[2u16, 7, 8, 100, 667, 65280, 65534]);
            keys.retain(|k| *k < last);
            keys.push(last);
            empty.push(last);
        }
        for k in &keys {
            if *k >= 7 && self.rng.chance(1, 5) {
                empty.push(*k);
            }
        }
        let mandatory = !keys.is_empty() && self.rng.chance(1, 3);
        let mut out = Vec::new();
        if mandatory {
            let n = self.rng.urange(1, keys.len());
            let mut ks: Vec<u16> = keys.clone();
            self.rng.shuffle(&mut ks);
            ks.truncate(n);
            ks.sort_unstable();
            out.push(json!({"key": 0, "mandatory": ks}));
        }
        for k in keys {
            let v = match k {
                1 => {
                    let n = if shape == 2 { 4 } else { self.rng.urange(1, 3) };
                    let ids: Vec<String> = (0..n)
                        .map(|_| {
                            if self.mode == Mode::Max && self.rng.chance(1, 3) {
                                "x".repeat(255)
                            } else {
                                self.rng.pick(&["h2", "h3", "http/1.1", "x,y", "a\\b", "h2c", "dot", "\u{e9}\u{4e2d}", "q"]).to_string()
                            }
                        })
                        .collect();
                    json!({"key": 1, "alpn": ids})
                }
                2 => json!({"key": 2}),
                3 => json!({"key": 3, "port": self.u16v()}),
                4 => {
                    let n = self.rng.urange(1, 3);
                    json!({"key": 4, "ipv4": (0..n).map(|_| hex(&self.rng.bytes(4))).collect::<Vec<_>>()})
                }
                5 => json!({"key": 5, "ech": hex(&self.blob(1, 400))}),
                6 => {
                    let n = self.rng.urange(1, 2);
                    json!({"key": 6, "ipv6": (0..n).map(|_| hex(&self.rng.bytes(16))).collect::<Vec<_>>()})
                }
                _ => {
                    let d = if empty.contains(&k) { vec![] } else { self.blob(1, 300) };
                    json!({"key": k, "unknown": hex(&d)})
                }
            };
            out.push(v);
        }
        out
    }

    /// type specific fields of one record
    fn rdata(&mut self, t: &str) -> Value {
        match t {
            "A" => json!({"addr": hex(&if self.boundary() { self.rng.pick(&[[0u8; 4], [255; 4]]).to_vec() } else { self.rng.bytes(4) })}),
            "AAAA" => json!({"addr": hex(&if self.boundary() { self.rng.pick(&[[0u8; 16], [255; 16]]).to_vec() } else { self.rng.bytes(16) })}),
            "NS" | "CNAME" | "PTR" | "ANAME" => json!({"name": self.hname()}),
            "MX" => json!({"pref": self.u16v(), "name": self.hname()}),
            "SOA" => json!({"mname": self.hname(), "rname": self.hname(), "serial": self.u32v(), "refresh": self.u32v(), "retry": self.u32v(), "expire": self.u32v(), "minimum": self.u32v()}),
            "SRV" => json!({"prio": self.u16v(), "weight": self.u16v(), "port": self.u16v(), "name": self.hname()}),
            "NAPTR" => {
                // flags: RFC 3403 §4.1 alphanumerics
                let nf = match self.mode {
                    Mode::Empty => 0,
                    Mode::Max if self.rng.bool() => 255,
                    _ => self.rng.urange(0, 3),
                };
                let flags: Vec<u8> = (0..nf).map(|_| *self.rng.pick(b"AaSsUuPp019zZ")).collect();
                json!({"order": self.u16v(), "pref": self.u16v(), "flags": hex(&flags), "services": hex(&self.charstr()), "regexp": hex(&self.charstr()), "name": self.hname()})
            }
            "HINFO" => json!({"cpu": hex(&self.charstr()), "os": hex(&self.charstr())}),
            "TXT" => {
                let n = match self.mode {
                    Mode::Max if self.rng.bool() => self.rng.urange(8, 60),
                    _ => match self.rng.below(10) {
                        0 => self.rng.urange(8, 30),
                        _ => self.rng.urange(1, 4),
                    },
                };
                let mut ss: Vec<Vec<u8>> = (0..n).map(|_| self.charstr()).collect();
                if self.mode == Mode::Empty && self.rng.bool() {
                    // empty strings in first / last / only position
                    match self.rng.below(3) {
                        0 => ss = vec![vec![]],
                        1 => ss.push(vec![]),
                        _ => ss.insert(0, vec![]),
                    }
                }
                json!({"strings": ss.iter().map(|s| hex(s)).collect::<Vec<_>>()})
            }
            // empty RDATA of NULL / unknown types: RFC 1035 §3.3.10 "anything at all", RFC 3597 §5 "\# 0"
            // (kept to the Empty mode: every such record is a known finding and ends its case early)
            "NULL" => json!({"data": hex(&self.blob((self.mode != Mode::Empty) as usize, 65000))}),
            "OPENPGPKEY" => json!({"data": hex(&self.blob(1, 65000))}),
            "Unknown" => {
                let code = loop {
                    let c = if self.rng.chance(1, 3) { *self.rng.pick(&[3u16, 11, 17, 18, 26, 29, 39, 42, 45, 99, 249, 253, 254, 256, 258, 32769, 65280, 65534, 65535]) } else { self.rng.u16() };
                    if matches!(hickory_proto::rr::RecordType::from(c), hickory_proto::rr::RecordType::Unknown(_)) {
                        break c;
                    }
                };
                json!({"code": code, "data": hex(&self.blob((self.mode != Mode::Empty) as usize, 65000))})
            }
            "CAA" => {
                let critical = self.rng.bool();
                match self.rng.below(5) {
                    0 | 1 => {
                        let kind = if self.rng.bool() { "issue" } else { "issuewild" };
                        let dom = if self.rng.chance(1, 4) { Value::Null } else { json!(*self.rng.pick(&["ca.example.net", "letsencrypt.org", "x", "a-b.c0.example", "CA.Example.NET"])) };
                        let np = if self.rng.bool() { 0 } else { self.rng.urange(1, 3) };
                        let params: Vec<Value> = (0..np)
                            .map(|_| json!({"k": *self.rng.pick(&["account", "policy", "validationmethods", "a-1", "x"]), "v": *self.rng.pick(&["230123", "ev", "dns-01", "", "https://x.example/a?b=c", "v-1.2"])}))
                            .collect();
                        json!({"kind": kind, "critical": critical, "domain": dom, "params": params})
                    }
                    2 => {
                        let base = *self.rng.pick(&["mailto:security@example.com", "https://iodef.example.com/", "http://iodef.example.com/report", "https://example.net/a/b?c=d"]);
                        json!({"kind": "iodef", "critical": critical, "url": base})
                    }
                    _ => {
                        let n = if self.boundary() { *self.rng.pick(&[1usize, 15]) } else { self.rng.urange(1, 15) };
                        let mut tag: String = (0..n).map(|_| *self.rng.pick(b"abcdefghijklmnopqrstuvwxyzABCXYZ0123456789") as char).collect();
                        // not one of the tags with a sub-format
                        if ["issue", "issuewild", "iodef"].contains(&tag.to_ascii_lowercase().as_str()) {
                            tag.push('0');
                        }
                        let rf = if self.rng.chance(1, 3) { self.rng.u8() & 0x7f } else { 0 };
                        json!({"kind": "unknown", "critical": critical, "tag": tag, "value": hex(&self.blob(0, 2000)), "reserved": rf})
                    }
                }
            }
            "CERT" => json!({"ctype": if self.rng.bool() { *self.rng.pick(&[0u16, 1, 2, 3, 4, 5, 6, 7, 8, 9, 253, 254, 255, 256, 65280, 65534, 65535]) } else { self.rng.u16() }, "keytag": self.u16v(), "alg": self.u8v(), "data": hex(&self.blob(1, 60000))}),
            "CSYNC" => json!({"serial": self.u32v(), "immediate": self.rng.bool(), "soamin": self.rng.bool(), "types": self.types()}),
            "SSHFP" => json!({"alg": self.u8v(), "fptype": self.u8v(), "fp": hex(&self.blob(0, 2000))}),
            "TLSA" | "SMIMEA" => json!({"usage": self.u8v(), "selector": self.u8v(), "matching": self.u8v(), "data": hex(&self.blob(0, 2000))}),
            "SVCB" | "HTTPS" => {
                let params = self.svc_params();
                json!({"prio": if params.is_empty() && self.rng.bool() { 0 } else { self.u16v() }, "name": self.hname(), "params": params})
            }
            "DNSKEY" => json!({"flags": if self.rng.bool() { *self.rng.pick(&[0u16, 256, 257, 384, 385, 1, 128]) } else { self.u16v() }, "alg": self.u8v(), "key": hex(&self.blob(0, 2000))}),
            "CDNSKEY" => {
                let alg = if self.rng.chance(1, 4) { 0 } else { self.u8v() };
                json!({"flags": if self.rng.bool() { *self.rng.pick(&[0u16, 256, 257, 384, 385]) } else { self.u16v() }, "alg": alg, "key": hex(&if alg == 0 { vec![0] } else { self.blob(0, 2000) })})
            }
            "DS" => json!({"keytag": self.u16v(), "alg": self.u8v(), "dtype": self.u8v(), "digest": hex(&self.blob(0, 200))}),
            "CDS" => {
                let alg = if self.rng.chance(1, 4) { 0 } else { self.u8v() };
                json!({"keytag": self.u16v(), "alg": alg, "dtype": self.u8v(), "digest": hex(&if alg == 0 { vec![0] } else { self.blob(0, 200) })})
            }
            "KEY" => json!({"flags": self.rng.u16() & 0xC30F, "proto": self.u8v(), "alg": self.u8v(), "key": hex(&self.blob(0, 2000))}),
            "NSEC" => json!({"name": self.hname(), "types": self.types()}),
            "NSEC3" => {
                let salt = self.blob(0, 255);
                let next = if self.rng.chance(3, 4) && !matches!(self.mode, Mode::Empty | Mode::Max) { self.rng.bytes(20) } else { self.blob(0, 255) };
                json!({"optout": self.rng.bool(), "iter": self.u16v(), "salt": hex(&salt), "next": hex(&next), "types": self.types()})
            }
            "NSEC3PARAM" => json!({"optout": self.rng.bool(), "iter": self.u16v(), "salt": hex(&self.blob(0, 255))}),
            "RRSIG" | "SIG" => json!({
                "covered": if t == "SIG" && self.rng.bool() { 0 } else if self.rng.chance(1, 4) { self.u16v() } else { *self.rng.pick(&[1u16, 2, 6, 15, 28, 43, 47, 48, 50, 65]) },
                "alg": self.u8v(), "labels": self.u8v(), "ottl": self.u32v(), "exp": self.u32v(), "inc": self.u32v(), "keytag": self.u16v(),
                "name": self.hname(), "sig": hex(&self.blob(0, 2000))}),
            _ => unreachable!("kind {t}"),
        }
    }

    pub fn record(&mut self, t: &str) -> Value {
        let mut v = self.rdata(t);
        let o = v.as_object_mut().unwrap();
        o.insert("t".into(), json!(t));
        let owner = self.hname();
        o.insert("owner".into(), json!(owner));
        o.insert("class".into(), json!(self.class()));
        o.insert("ttl".into(), json!(self.ttl()));
        v
    }

    fn ecs(&mut self) -> Value {
        let v4 = self.rng.bool();
        let width: u8 = if v4 { 32 } else { 128 };
        let src = match self.rng.below(4) {
            0 => 0,
            1 => width,
            _ => self.rng.range(0, width as u64) as u8,
        };
        let mut a = self.rng.bytes(width as usize / 8);
        for (i, o) in a.iter_mut().enumerate() {
            if i > src as usize / 8 || (i == src as usize / 8 && src % 8 == 0) {
                *o = 0;
            } else if i == src as usize / 8 {
                *o &= 0xffu8 << (8 - src % 8);
            }
        }
        let scope = if self.rng.bool() { 0 } else { self.rng.range(0, width as u64) as u8 };
        json!({"k": "Subnet", "fam": if v4 { 4 } else { 6 }, "addr": hex(&a), "src": src, "scope": scope})
    }

    fn alg_list(&mut self) -> Vec<u8> {
        if self.mode == Mode::Empty || self.rng.chance(1, 5) {
            return vec![];
        }
        [5u8, 7, 8, 10, 13, 14, 15].iter().copied().filter(|_| self.rng.bool()).collect()
    }

    fn edns_option(&mut self, kind: u64) -> Value {
        let empty = self.mode == Mode::Empty && self.rng.bool();
        match kind {
            0 => json!({"k": "DAU", "algs": self.alg_list()}),
            1 => json!({"k": "Unknown", "code": 6, "data": hex(&self.alg_list())}), // DHU
            2 => json!({"k": "Unknown", "code": 7, "data": hex(&self.alg_list())}), // N3U
            3 => self.ecs(),
            4 => json!({"k": "NSID", "data": hex(&if empty || self.rng.chance(1, 4) { vec![] } else { self.blob(1, 3000) })}),
            5 => {
                // cookie: client only (8) or client + server (16..40)
                let n = *self.rng.pick(&[8usize, 16, 24, 32, 40]);
                json!({"k": "Unknown", "code": 10, "data": hex(&self.rng.bytes(n))})
            }
            6 => json!({"k": "Unknown", "code": 11, "data": hex(&if self.rng.bool() { vec![] } else { self.rng.bytes(2) })}), // keepalive
            7 => {
                let n = if empty || self.rng.chance(1, 4) { 0 } else { self.rng.urange(1, 468) };
                json!({"k": "Unknown", "code": 12, "data": hex(&vec![0u8; n])}) // padding
            }
            8 => json!({"k": "Unknown", "code": 9, "data": hex(&if self.rng.bool() { vec![] } else { self.rng.bytes(4) })}), // expire
            9 => {
                let n = self.name();
                json!({"k": "Unknown", "code": 13, "data": hex(&wire_of_name(&n))}) // chain
            }
            10 => json!({"k": "Unknown", "code": 15, "data": hex(&{ let mut d = self.rng.u16().to_be_bytes().to_vec(); d.extend_from_slice(b"extended error"); d })}),
            _ => {
                let code = *self.rng.pick(&[0u16, 1, 2, 4, 14, 16, 17, 18, 19, 20, 26946, 65001, 65534, 65535]);
                json!({"k": "Unknown", "code": code, "data": hex(&if empty { vec![] } else { self.blob(0, 500) })})
            }
        }
    }

    fn edns(&mut self, index: u64) -> Value {
        let nopt = match self.rng.below(8) {
            0 => 0,
            1 => self.rng.urange(5, 10),
            _ => self.rng.urange(1, 3),
        };
        let mut opts: Vec<Value> = Vec::new();
        for j in 0..nopt {
            // the first option of a message cycles through the kinds, the others are random
            let kind = if j == 0 { (index / 2) % 12 } else { self.rng.below(12) };
            opts.push(self.edns_option(kind));
        }
        let payload = if self.rng.chance(1, 8) { *self.rng.pick(&[0u16, 100, 511]) } else { *self.rng.pick(&[512u16, 513, 1232, 1452, 4096, 9000, 65535]) };
        json!({
            "version": if self.rng.chance(1, 4) { self.u8v() } else { 0 },
            "do": self.rng.bool(),
            "z": if self.rng.chance(1, 4) { self.rng.u16() & 0x7fff } else { 0 },
            "payload": payload,
            "opts": opts,
        })
    }

    fn tsig(&mut self, index: u64) -> Value {
        let alg = if index % 11 == 10 {
            // a name hickory has no variant for (also: a known name in another case)
            let l: Labels = match self.rng.below(3) {
                0 => vec![b"HMAC-SHA256".to_vec()],
                1 => vec![b"hmac-sha3-256".to_vec(), b"example".to_vec()],
                _ => self.name(),
            };
            json!({"unknown": nhex(&l)})
        } else {
            json!(sbuild::TSIG_ALG_IDS[(index % 11) as usize % sbuild::TSIG_ALG_IDS.len()])
        };
        let mac = match self.rng.below(6) {
            0 => vec![],
            1 => self.blob(0, 4000),
            _ => {
                let n = *self.rng.pick(&[10usize, 16, 20, 28, 32, 48, 64]);
                self.rng.bytes(n)
            }
        };
        let time = match self.rng.below(5) {
            0 => 0,
            1 => 0xffff_ffff_ffff,
            2 => 0x1_0000_0000,
            _ => self.rng.next_u64() >> 16,
        };
        let error = *self.rng.pick(&[0u16, 0, 0, 16, 17, 18, 22, 1, 23, 65535]);
        let other = if error == 18 { self.rng.bytes(6) } else if self.rng.chance(1, 6) { self.blob(0, 300) } else { vec![] };
        let (class, ttl) = if self.rng.chance(1, 8) { (self.class(), self.ttl()) } else { (255, 0) };
        json!({"owner": self.hname(), "class": class, "ttl": ttl, "alg": alg, "time": time, "fudge": self.u16v(), "mac": hex(&mac), "oid": self.u16v(), "error": error, "other": hex(&other)})
    }

    /// One message. `index` drives the enumerated parts: flag combination, opcode, primary record
    /// kind, first EDNS option kind, TSIG algorithm.
    pub fn message(&mut self, index: u64) -> Value {
        // every combination of QR AA TC RD RA AD CD: a bijection on every aligned block of 128 indices
        let fbits = (index ^ (index >> 7)) % 128;
        let opcode = ((index / 128) + index % 7) % 16;
        let update = opcode == 5;
        let with_edns = self.rng.chance(2, 5);
        let with_tsig = self.rng.chance(1, 5);
        let rcode: u16 = if with_edns {
            match self.rng.below(4) {
                0 => self.rng.range(0, 4095) as u16,
                1 => self.rng.range(0, 15) as u16,
                _ => *self.rng.pick(&[0u16, 1, 2, 3, 5, 9, 15, 16, 17, 18, 19, 20, 21, 22, 23, 24, 255, 256, 3841, 4095]),
            }
        } else {
            self.rng.range(0, 15) as u16
        };
        let nq = match self.rng.below(10) {
            0 => 0,
            1 => 2,
            _ => 1,
        };
        let q: Vec<Value> = (0..nq)
            .map(|_| {
                let t = if self.rng.chance(1, 4) { *self.rng.pick(&[255u16, 252, 251, 0, 41, 250, 65535]) } else if self.rng.chance(1, 6) { self.rng.u16() } else { *self.rng.pick(gen::DATA_TYPES) };
                json!({"name": self.hname(), "type": t, "class": self.class()})
            })
            .collect();

        let primary = KINDS[(index % KINDS.len() as u64) as usize];
        let nrec = match self.mode {
            Mode::Msg65535 => self.rng.urange(0, 3),
            Mode::Max => self.rng.urange(1, 5),
            _ => match self.rng.below(16) {
                0 => 0,
                1 => self.rng.urange(12, 40),
                _ => self.rng.urange(1, 6),
            },
        };
        let mut secs: [Vec<Value>; 3] = [vec![], vec![], vec![]];
        for j in 0..nrec.max(1) {
            let t = if j == 0 || self.rng.chance(1, 3) { primary } else { *self.rng.pick(KINDS) };
            let si = if t == "SIG" { 2 } else { self.rng.usize_below(3) };
            let mut r = self.record(t);
            if update && r.get("t").is_some() {
                // empty RDATA is RFC 2136's own wire form inside UPDATE; keep such values out
                let mut tags = sbuild::Tags::default();
                if sbuild::rdata(&r, &mut tags).map(|b| b.expected.is_empty()).unwrap_or(false) {
                    r = self.record("A");
                }
            }
            secs[si].push(r);
        }
        if update {
            for _ in 0..self.rng.urange(1, 3) {
                let code = if self.rng.bool() { *self.rng.pick(&[255u16, 1, 6, 16, 0, 65535, 46]) } else { *self.rng.pick(gen::DATA_TYPES) };
                let r = json!({"t": "Update0", "code": code, "owner": self.hname(), "class": *self.rng.pick(&[1u16, 254, 255]), "ttl": if self.rng.bool() { 0 } else { self.ttl() }});
                let si = self.rng.usize_below(3);
                secs[si].push(r);
            }
        }
        let [an, ns, ar] = secs;
        let mut spec = json!({
            "id": self.rng.u16(),
            "qr": fbits & 1 != 0, "aa": fbits & 2 != 0, "tc": fbits & 4 != 0, "rd": fbits & 8 != 0, "ra": fbits & 16 != 0, "ad": fbits & 32 != 0, "cd": fbits & 64 != 0,
            "opcode": opcode, "rcode": rcode,
            "q": q, "an": an, "ns": ns, "ar": ar,
            "edns": if with_edns { self.edns(index) } else { Value::Null },
            "tsig": if with_tsig { self.tsig(index) } else { Value::Null },
        });
        if self.mode == Mode::Msg65535 && !update {
            let target = if self.rng.chance(1, 4) { 65534 } else { 65535 };
            self.fill_to(&mut spec, target);
        }
        spec
    }

    /// Append one opaque record to the additional section so that the harness' uncompressed
    /// encoding of the message is exactly `target` octets long.
    fn fill_to(&mut self, spec: &mut Value, target: usize) {
        let Ok(b) = sbuild::build(spec) else { return };
        let fixed = 1 + 10; // root owner + type, class, ttl, rdlength
        if b.wire.len() + fixed + 2 > target {
            return;
        }
        let room = target - b.wire.len() - fixed;
        let r = match self.rng.below(4) {
            0 => json!({"t": "NULL", "data": hex(&self.rng.bytes(room))}),
            1 => json!({"t": "Unknown", "code": 65280, "data": hex(&self.rng.bytes(room))}),
            2 => json!({"t": "OPENPGPKEY", "data": hex(&self.rng.bytes(room))}),
            _ => {
                // TXT: full 255-octet strings and one shorter string filling the rest exactly
                let mut ss: Vec<String> = Vec::new();
                let mut left = room;
                while left > 0 {
                    let l = (left - 1).min(255);
                    ss.push(hex(&vec![b'x'; l]));
                    left -= l + 1;
                }
                json!({"t": "TXT", "strings": ss})
            }
        };
        let mut r = r;
        let o = r.as_object_mut().unwrap();
        o.insert("owner".into(), json!("00"));
        o.insert("class".into(), json!(1));
        o.insert("ttl".into(), json!(self.ttl()));
        spec["ar"].as_array_mut().unwrap().push(r);
    }
}
