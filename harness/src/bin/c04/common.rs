//! Shared helpers: building hickory names from the reference representation through several
//! constructors, the 255/63 limit monitor, violation plumbing.

use hickory_proto::rr::Name;
use hickory_proto::serialize::binary::{BinDecodable, BinDecoder};
use serde_json::{json, Value};

use vh::mon::{self, Reporter};

use crate::refname::RName;

pub struct Ck<'a> {
    pub rep: &'a mut Reporter,
}

impl Ck<'_> {
    pub fn fail(&mut self, rule: &str, sig: &str, case: Value, expected: Value, observed: Value) {
        self.rep.count(&format!("violations/{rule}"));
        self.rep.violation(rule, sig, case, expected, observed);
    }

    /// clause 5: every name hickory hands back is measured from its raw labels
    pub fn limit(&mut self, op: &str, n: &Name, case: &dyn Fn() -> Value) {
        self.rep.count("limit_checks");
        let (total, longest) = measure(n);
        self.rep.max("max_wire_len_seen", total as f64);
        self.rep.max("max_label_len_seen", longest as f64);
        if total == 255 {
            self.rep.count("names_at_255");
        }
        if total > 255 {
            self.fail("limit", &format!("{op}|name>255"), case(), json!("wire length ≤ 255"), json!({"wire_len": total, "name": show_name(n)}));
        }
        if longest > 63 {
            self.fail("limit", &format!("{op}|label>63"), case(), json!("label ≤ 63"), json!({"label_len": longest, "name": show_name(n)}));
        }
        if n.iter().any(|l| l.is_empty()) {
            self.fail("limit", &format!("{op}|empty-label"), case(), json!("no empty interior label"), json!({"name": show_name(n)}));
        }
    }
}

pub fn measure(n: &Name) -> (usize, usize) {
    let mut total = 1;
    let mut longest = 0;
    for l in n.iter() {
        total += l.len() + 1;
        longest = longest.max(l.len());
    }
    (total, longest)
}

pub fn labels_of(n: &Name) -> Vec<Vec<u8>> {
    n.iter().map(|l| l.to_vec()).collect()
}

pub fn to_rname(n: &Name) -> RName {
    RName::new(labels_of(n), n.is_fqdn())
}

pub fn show_name(n: &Name) -> String {
    to_rname(n).show()
}

pub const CTORS: &[&str] = &["from_labels", "wire", "append", "prepend", "ascii"];

/// Build a hickory `Name` for `r` through constructor `ctor`. Ok(None) = constructor not
/// applicable to this name.
pub fn build(r: &RName, ctor: &str) -> Result<Option<Name>, String> {
    let res = mon::catch(|| -> Result<Option<Name>, String> {
        let mut n = match ctor {
            "from_labels" => Name::from_labels(r.labels.iter().map(|l| l.as_slice())).map_err(|e| e.to_string())?,
            "wire" => {
                let mut b = Vec::new();
                vh::refwire::put_name(&mut b, &r.labels);
                let mut d = BinDecoder::new(&b);
                Name::read(&mut d).map_err(|e| e.to_string())?
            }
            "append" => {
                let mut n = Name::new();
                for l in &r.labels {
                    n = n.append_label(l.as_slice()).map_err(|e| e.to_string())?;
                }
                n
            }
            "prepend" => {
                let mut n = Name::new();
                for l in r.labels.iter().rev() {
                    n = n.prepend_label(l.as_slice()).map_err(|e| e.to_string())?;
                }
                n
            }
            "ascii" => {
                if !r.host_style() {
                    return Ok(None);
                }
                // the flag comes from the text itself
                return Name::from_ascii(r.host_text()).map(Some).map_err(|e| e.to_string());
            }
            _ => return Ok(None),
        };
        n.set_fqdn(r.fqdn);
        Ok(Some(n))
    });
    match res {
        Ok(r) => r,
        Err(p) => Err(format!("panic: {} at {}", p.message, p.location)),
    }
}

/// Build and verify fidelity (labels byte-for-byte, flag). A legal name that cannot be built, or
/// is built differently, is reported under rule `construct`.
pub fn build_checked(ck: &mut Ck, r: &RName, ctor: &str) -> Option<Name> {
    let case = || json!({"kind": "construct", "name": r.to_json(), "ctor": ctor});
    match build(r, ctor) {
        Ok(Some(n)) => {
            ck.rep.eval();
            ck.limit(ctor, &n, &case);
            let got = to_rname(&n);
            if got != *r {
                let what = if got.labels != r.labels { "labels" } else { "fqdn" };
                ck.fail("construct", &format!("{ctor}|{what}"), case(), r.to_json(), got.to_json());
                return None;
            }
            Some(n)
        }
        Ok(None) => None,
        Err(e) => {
            ck.rep.eval();
            let what = if e.starts_with("panic") { "panic" } else { "rejects-legal" };
            ck.fail("construct", &format!("{ctor}|{what}"), case(), json!("Ok: the name is legal (labels 1..=63, wire ≤ 255)"), json!(e));
            None
        }
    }
}

pub fn err_kind(e: &dyn std::fmt::Debug) -> String {
    let s = format!("{e:?}");
    let end = s.find(|c: char| !(c.is_alphanumeric() || c == '_')).unwrap_or(s.len());
    if end == 0 {
        "Other".into()
    } else {
        s[..end].to_string()
    }
}
