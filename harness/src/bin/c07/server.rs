//! Second observation point: the server's AD / rcode mapping on the complete real path
//! `Catalog` -> hickory's own `ForwardZoneHandler` -> `Resolver` (validate = true, trust anchor =
//! the hierarchy's root key) -> name-server pool -> the harness' connection provider, whose
//! connections are the same tamperable honest upstream the first observation point uses.
//! The wire response handed to a recording `ResponseHandler` is decoded with the harness' own
//! walker and judged against ground truth.
#![allow(dead_code)]

use std::net::{IpAddr, Ipv4Addr, SocketAddr};
use std::sync::{Arc, Mutex};

use hickory_net::xfer::Protocol;
use hickory_net::NetError;
use hickory_proto::dnssec::TrustAnchors;
use hickory_proto::rr::{LowerName, Record};
use hickory_proto::serialize::binary::BinEncoder;
use hickory_resolver::config::{ConnectionConfig, NameServerConfig, ResolverOpts};
use hickory_resolver::{ConnectionProvider, PoolContext};
use hickory_server::server::{Request, RequestHandler, ResponseHandler, ResponseInfo};
use hickory_server::store::forwarder::{ForwardConfig, ForwardZoneHandler};
use hickory_server::zone_handler::{Catalog, MessageResponse, ZoneHandler};

use vh::mon;
use vh::refwire::{self, WHeader};

use crate::refzone::{self, fold, ty, Name};
use crate::upstream::Upstream;
use crate::vrt;
use crate::world::Rec;

#[derive(Clone)]
pub struct UpProvider {
    pub up: Upstream,
    pub rt: vrt::VRuntime,
}

impl ConnectionProvider for UpProvider {
    type Conn = Upstream;
    type FutureConn = std::future::Ready<Result<Upstream, NetError>>;
    type RuntimeProvider = vrt::VRuntime;

    fn new_connection(&self, _ip: IpAddr, _config: &ConnectionConfig, _cx: &PoolContext) -> Result<Self::FutureConn, NetError> {
        Ok(std::future::ready(Ok(self.up.clone())))
    }
    fn runtime_provider(&self) -> &vrt::VRuntime {
        &self.rt
    }
}

#[derive(Clone, Default)]
pub struct Recorder(pub Arc<Mutex<Vec<Vec<u8>>>>);

#[async_trait::async_trait]
impl ResponseHandler for Recorder {
    async fn send_response<'a>(
        &mut self,
        response: MessageResponse<'_, 'a, impl Iterator<Item = &'a Record> + Send + 'a, impl Iterator<Item = &'a Record> + Send + 'a, impl Iterator<Item = &'a Record> + Send + 'a, impl Iterator<Item = &'a Record> + Send + 'a>,
    ) -> Result<ResponseInfo, NetError> {
        let mut buf = Vec::new();
        let mut enc = BinEncoder::new(&mut buf);
        let info = response.destructive_emit(&mut enc)?;
        self.0.lock().unwrap().push(buf);
        Ok(info)
    }
}

/// A catalog whose root zone is a validating forwarder over `up`. Must be called inside the runtime.
pub fn build_catalog(up: &Upstream, trust: Arc<TrustAnchors>) -> Result<Catalog, String> {
    let mut opts = ResolverOpts::default();
    opts.validate = true;
    opts.attempts = 1;
    opts.preserve_intermediates = true;
    opts.edns0 = true;
    let mut ns = NameServerConfig::udp(IpAddr::V4(Ipv4Addr::new(192, 0, 2, 53)));
    ns.trust_negative_responses = true;
    let cfg = ForwardConfig { name_servers: vec![ns], options: Some(opts) };
    let provider = UpProvider { up: up.clone(), rt: vrt::VRuntime::new() };
    let handler = ForwardZoneHandler::builder_with_config(cfg, provider).with_trust_anchor(trust).build()?;
    let mut cat = Catalog::new();
    cat.upsert(LowerName::from(&hickory_proto::rr::Name::root()), vec![Arc::new(handler) as Arc<dyn ZoneHandler>]);
    Ok(cat)
}

#[derive(Clone, Copy, Debug, PartialEq, Eq)]
pub struct Flags {
    pub edns_do: bool,
    pub ad: bool,
    pub cd: bool,
    pub rd: bool,
}

impl Flags {
    pub fn label(&self) -> String {
        format!("do{}ad{}cd{}rd{}", self.edns_do as u8, self.ad as u8, self.cd as u8, self.rd as u8)
    }
    pub fn all() -> Vec<Flags> {
        let mut v = Vec::new();
        for i in 0..16u8 {
            v.push(Flags { edns_do: i & 1 != 0, ad: i & 2 != 0, cd: i & 4 != 0, rd: i & 8 != 0 });
        }
        v
    }
}

pub fn request_wire(qname: &[Vec<u8>], qtype: u16, f: Flags) -> Vec<u8> {
    let mut b = Vec::new();
    let flags: u16 = if f.rd { 0x0100 } else { 0 } | if f.ad { 0x0020 } else { 0 } | if f.cd { 0x0010 } else { 0 };
    // EDNS always present (so that the DO bit is the only difference), DO per flag
    refwire::put_header(&mut b, &WHeader { id: 0x4337, flags, qd: 1, an: 0, ns: 0, ar: 1 });
    refwire::put_question(&mut b, qname, qtype, 1);
    b.push(0); // root owner
    b.extend_from_slice(&41u16.to_be_bytes());
    b.extend_from_slice(&1232u16.to_be_bytes());
    b.extend_from_slice(&(if f.edns_do { 0x0000_8000u32 } else { 0 }).to_be_bytes());
    b.extend_from_slice(&0u16.to_be_bytes());
    b
}

#[derive(Clone, Debug)]
pub struct WireObs {
    pub rcode: u8,
    pub ad: bool,
    pub cd: bool,
    pub ra: bool,
    pub recs: Vec<Rec>,
}

/// RDATA with embedded (possibly compressed) names written out in full
fn expand_rdata(msg: &[u8], r: &refwire::WRecord) -> Vec<u8> {
    let raw = r.rdata(msg).to_vec();
    let end = r.rdata_off + r.rdata_len;
    let name_at = |off: usize| -> Option<(Vec<u8>, usize)> {
        let (n, next) = refwire::read_name(msg, off).ok()?;
        if next > end {
            return None;
        }
        Some((refzone::wire_name(&n.labels), next))
    };
    let out: Option<Vec<u8>> = (|| match r.rtype {
        ty::NS | ty::CNAME | ty::PTR => Some(name_at(r.rdata_off)?.0),
        ty::MX => {
            let mut v = raw.get(..2)?.to_vec();
            v.extend(name_at(r.rdata_off + 2)?.0);
            Some(v)
        }
        ty::SOA => {
            let (m, o1) = name_at(r.rdata_off)?;
            let (rn, o2) = name_at(o1)?;
            let mut v = m;
            v.extend(rn);
            v.extend_from_slice(msg.get(o2..end)?);
            Some(v)
        }
        _ => None,
    })();
    out.unwrap_or(raw)
}

pub fn decode(msg: &[u8]) -> Result<WireObs, String> {
    let w = refwire::walk(msg)?;
    let mut recs = Vec::new();
    for (s, sec) in w.sections.iter().enumerate() {
        for r in sec {
            if r.rtype == 41 {
                continue;
            }
            recs.push(Rec { sec: s as u8, owner: fold(&r.owner.labels), rtype: r.rtype, class: r.class, ttl: r.ttl, rdata: expand_rdata(msg, r) });
        }
    }
    Ok(WireObs { rcode: w.header.rcode_low(), ad: w.header.ad(), cd: w.header.cd(), ra: w.header.ra(), recs })
}

/// one request through the catalog; Err on panic / no response / undecodable response
pub fn ask(rt: &tokio::runtime::Runtime, cat: &Catalog, qname: &Name, qtype: u16, f: Flags) -> Result<WireObs, String> {
    let wire = request_wire(qname, qtype, f);
    let r = mon::catch(|| {
        rt.block_on(async {
            let src: SocketAddr = "192.0.2.9:5353".parse().unwrap();
            let req = Request::from_bytes(wire, src, Protocol::Udp).map_err(|e| format!("request did not parse: {e}"))?;
            let rec = Recorder::default();
            cat.handle_request::<_, vrt::VTime>(&req, rec.clone()).await;
            let out = std::mem::take(&mut *rec.0.lock().unwrap());
            Ok::<_, String>(out)
        })
    });
    match r {
        Ok(Ok(msgs)) => match msgs.first() {
            Some(m) => decode(m),
            None => Err("no response".into()),
        },
        Ok(Err(e)) => Err(e),
        Err(p) => Err(format!("PANIC {} @ {}", p.message.split_whitespace().collect::<Vec<_>>().join(" "), crate::crate_site(&p.site()))),
    }
}
