#!/usr/bin/env python3
"""Maintainer tool: merge findings/<ID>.entries.json into known_findings.json (never run by a check).

usage: mergefindings.py merge C10 C12 ...        add proposed entries that are not yet listed
       mergefindings.py fixed <FID> <commit>     mark an entry fixed by a /repo commit
"""
import json, os, sys
V = os.path.dirname(os.path.dirname(os.path.abspath(__file__)))
KF = os.path.join(V, "known_findings.json")

def load():
    return json.load(open(KF))

def save(k):
    json.dump(k, open(KF, "w"), indent=1)
    open(KF, "a").write("\n")

def main(a):
    k = load()
    ids = {e["id"] for e in k["findings"]}
    if a[0] == "merge":
        for pid in a[1:]:
            d = json.load(open(os.path.join(V, "findings", pid + ".entries.json")))
            if isinstance(d, dict):
                d = d["findings"]
            for e in d:
                if e["id"] in ids:
                    continue
                assert os.path.exists(os.path.join(V, e["witness"])), e["witness"]
                k["findings"].append(e)
                ids.add(e["id"])
                print("added", e["id"])
    elif a[0] == "fixed":
        fid, commit = a[1], a[2]
        for e in k["findings"]:
            if e["id"] == fid:
                e["status"] = "fixed"
                e["commit"] = commit
                e["line"] = "fixed: property=%s %s %s" % (e["property"], commit, e["what"])
                print("marked fixed", fid)
    save(k)

main(sys.argv[1:])
