//! The harness' own estimate of the UNCOMPRESSED encoded size of a `Message` value, computed from
//! the public fields / accessors only (never through hickory's encoder). It is an upper bound of
//! what any correct encoder needs (compression only shrinks a message), which is the direction
//! clause (E) needs: "estimate ≤ 65 535 ⇒ the message fits ⇒ `to_vec()` must not fail".

use hickory_proto::dnssec::rdata::DNSSECRData;
use hickory_proto::dnssec::PublicKey;
use hickory_proto::op::{Edns, Message};
use hickory_proto::rr::rdata::opt::EdnsOption;
use hickory_proto::rr::rdata::svcb::{SvcParamValue, SVCB};
use hickory_proto::rr::rdata::tsig::TsigAlgorithm;
use hickory_proto::rr::rdata::TSIG;
use hickory_proto::rr::{Name, RData, RecordType, RecordTypeSet};

fn name_len(n: &Name) -> usize {
    n.iter().map(|l| l.len() + 1).sum::<usize>() + 1
}

/// NSEC-style bitmap: at most 2 + 32 octets per window that holds a type.
fn bitmap_len(types: impl Iterator<Item = RecordType>) -> usize {
    let mut windows = [0u8; 256];
    for t in types {
        let c = u16::from(t);
        let w = (c >> 8) as usize;
        windows[w] = windows[w].max((c & 0xff) as u8 / 8 + 1);
    }
    windows.iter().filter(|l| **l > 0).map(|l| 2 + *l as usize).sum()
}

fn set_len(s: &RecordTypeSet) -> usize {
    bitmap_len(s.iter())
}

fn svcb_len(s: &SVCB) -> usize {
    let mut n = 2 + name_len(&s.target_name);
    for (_, v) in &s.svc_params {
        n += 4 + match v {
            SvcParamValue::Mandatory(m) => 2 * m.0.len(),
            SvcParamValue::Alpn(a) => a.0.iter().map(|i| 1 + i.len()).sum(),
            SvcParamValue::NoDefaultAlpn => 0,
            SvcParamValue::Port(_) => 2,
            SvcParamValue::Ipv4Hint(h) => 4 * h.0.len(),
            SvcParamValue::EchConfigList(e) => e.0.len(),
            SvcParamValue::Ipv6Hint(h) => 16 * h.0.len(),
            SvcParamValue::Unknown(u) => u.0.len(),
            #[allow(unreachable_patterns)]
            _ => return usize::MAX / 4,
        };
    }
    n
}

fn tsig_alg_len(a: &TsigAlgorithm) -> usize {
    name_len(&a.to_name())
}

pub fn tsig_len(t: &TSIG) -> usize {
    tsig_alg_len(&t.algorithm) + 6 + 2 + 2 + t.mac.len() + 2 + 2 + 2 + t.other.len()
}

fn option_len(o: &EdnsOption) -> usize {
    4 + match o {
        EdnsOption::DAU(a) => a.iter().count(),
        EdnsOption::Subnet(s) => 4 + (s.source_prefix() as usize).div_ceil(8),
        EdnsOption::NSID(p) => p.as_ref().len(),
        EdnsOption::Unknown(_, d) => d.len(),
        #[allow(unreachable_patterns)]
        _ => usize::MAX / 4,
    }
}

pub fn edns_len(e: &Edns) -> usize {
    11 + e.options().as_ref().iter().map(|(_, o)| option_len(o)).sum::<usize>()
}

/// RDATA octets (names counted uncompressed). `usize::MAX / 4` for a variant this file does not
/// know: such a message is then never *demanded* to encode.
pub fn rdata_len(d: &RData) -> usize {
    match d {
        RData::A(_) => 4,
        RData::AAAA(_) => 16,
        RData::ANAME(n) => name_len(&n.0),
        RData::CNAME(n) => name_len(&n.0),
        RData::NS(n) => name_len(&n.0),
        RData::PTR(n) => name_len(&n.0),
        RData::CAA(c) => 2 + c.tag.len() + c.value.len(),
        RData::CERT(c) => 5 + c.cert_data.len(),
        RData::CSYNC(c) => 6 + set_len(&c.type_bit_maps),
        RData::HINFO(h) => 2 + h.cpu.len() + h.os.len(),
        RData::HTTPS(h) => svcb_len(&h.0),
        RData::SVCB(s) => svcb_len(s),
        RData::MX(m) => 2 + name_len(&m.exchange),
        RData::NAPTR(n) => 4 + 3 + n.flags.len() + n.services.len() + n.regexp.len() + name_len(&n.replacement),
        RData::NULL(n) => n.anything.len(),
        RData::OPENPGPKEY(k) => k.public_key.len(),
        RData::OPT(o) => o.as_ref().iter().map(|(_, o)| option_len(o)).sum(),
        RData::SMIMEA(s) => 3 + s.0.cert_data.len(),
        RData::TLSA(t) => 3 + t.cert_data.len(),
        RData::SOA(s) => name_len(&s.mname) + name_len(&s.rname) + 20,
        RData::SRV(s) => 6 + name_len(&s.target),
        RData::SSHFP(s) => 2 + s.fingerprint.len(),
        RData::TSIG(t) => tsig_len(t),
        RData::TXT(t) => t.txt_data.iter().map(|s| 1 + s.len()).sum(),
        RData::Unknown { rdata, .. } => rdata.anything.len(),
        RData::Update0(_) => 0,
        RData::DNSSEC(d) => match d {
            DNSSECRData::DNSKEY(k) => 4 + k.public_key().public_bytes().len(),
            // the delete form hides its key octets from the accessor; the presentation form ends in
            // their base64 rendering (4 characters per 3 octets)
            DNSSECRData::CDNSKEY(k) => 4 + match k.public_key() {
                Some(p) => p.public_bytes().len(),
                None => k.to_string().rsplit(' ').next().map(|b| b.len() * 3 / 4 + 3).unwrap_or(0),
            },
            DNSSECRData::DS(d) => 4 + d.digest().len(),
            DNSSECRData::CDS(d) => 4 + d.digest().len(),
            DNSSECRData::KEY(k) => 4 + k.public_key().len(),
            DNSSECRData::NSEC(n) => name_len(n.next_domain_name()) + set_len(n.type_set()),
            DNSSECRData::NSEC3(n) => 6 + n.salt().len() + n.next_hashed_owner_name().len() + set_len(n.type_set()),
            DNSSECRData::NSEC3PARAM(n) => 5 + n.salt().len(),
            DNSSECRData::RRSIG(s) => 18 + name_len(&s.input().signer_name) + s.sig().len(),
            DNSSECRData::SIG(s) => 18 + name_len(&s.input().signer_name) + s.sig().len(),
            DNSSECRData::Unknown { rdata, .. } => rdata.anything.len(),
            #[allow(unreachable_patterns)]
            _ => usize::MAX / 4,
        },
        #[allow(unreachable_patterns, deprecated)]
        _ => usize::MAX / 4,
    }
}

pub fn message_size(m: &Message) -> usize {
    let mut n: usize = 12;
    for q in &m.queries {
        n = n.saturating_add(name_len(&q.name) + 4);
    }
    for r in m.answers.iter().chain(m.authorities.iter()).chain(m.additionals.iter()) {
        n = n.saturating_add(name_len(&r.name) + 10).saturating_add(rdata_len(&r.data));
    }
    if let Some(e) = &m.edns {
        n = n.saturating_add(edns_len(e));
    }
    if let Some(s) = m.signature() {
        n = n.saturating_add(name_len(&s.name) + 10).saturating_add(tsig_len(&s.data));
    }
    n
}
