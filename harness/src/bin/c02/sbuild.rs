//! Struct-level cases (workload S): a message is described by a *spec* — a JSON value that holds
//! nothing but field values (type tag + ints / hex strings) — and is materialised twice from it,
//! independently:
//!   * as a hickory `Message`, assembled field by field through hickory-proto's PUBLIC constructors
//!     (no decoder involved anywhere), and
//!   * as wire bytes written by the harness' own writer (no compression), with the expected RDATA
//!     of every record kept separately.
//! For every record type the constructor call and the harness' own RDATA writer sit next to each
//! other in `rdata()`. Neither side is derived from the other, and none of it from hickory's
//! encoder / decoder.
//!
//! The spec is the replay witness: `--replay` rebuilds the case from the JSON alone.
//!
//! Spec layout:
//! ```text
//! { "id":u16, "qr":bool, "opcode":0..15, "aa","tc","rd","ra","ad","cd":bool, "rcode":0..4095,
//!   "q":  [ {"name":NAME, "type":u16, "class":u16} ],
//!   "an": [REC], "ns": [REC], "ar": [REC],
//!   "edns": null | {"version":u8, "do":bool, "z":0..0x7fff, "payload":u16, "opts":[OPT]},
//!   "tsig": null | {"owner":NAME,"class":u16,"ttl":u32,"alg":"hmac-sha256"|..|{"unknown":NAME},
//!                   "time":u48,"fudge":u16,"mac":HEX,"oid":u16,"error":u16,"other":HEX} }
//! NAME = hex of the uncompressed wire form (length-prefixed labels, terminated by 00)
//! REC  = {"owner":NAME, "class":u16, "ttl":u32, "t":"<TYPE>", ...type specific fields}
//! OPT  = {"k":"DAU","algs":[u8]} | {"k":"Subnet","fam":4|6,"addr":HEX,"src":u8,"scope":u8}
//!      | {"k":"NSID","data":HEX} | {"k":"Unknown","code":u16,"data":HEX}
//! ```

use std::net::{IpAddr, Ipv4Addr, Ipv6Addr};

#[allow(deprecated)]
use hickory_proto::dnssec::rdata::key::{KeyTrust, KeyUsage, Protocol, UpdateScope};
use hickory_proto::dnssec::rdata::{DNSSECRData, SigInput, CDNSKEY, CDS, DNSKEY, DS, KEY, NSEC, NSEC3, NSEC3PARAM, RRSIG};
use hickory_proto::dnssec::{Algorithm, DigestType, Nsec3HashAlgorithm, PublicKeyBuf, SupportedAlgorithms};
use hickory_proto::op::{Edns, Message, MessageType, OpCode, Query, ResponseCode};
use hickory_proto::rr::rdata::caa::KeyValue;
use hickory_proto::rr::rdata::opt::{ClientSubnet, EdnsOption, NSIDPayload};
use hickory_proto::rr::rdata::svcb::{Alpn, EchConfigList, IpHint, Mandatory, SvcParamKey, SvcParamValue, Unknown as SvcUnknown};
use hickory_proto::rr::rdata::tlsa::{CertUsage, Matching, Selector};
use hickory_proto::rr::rdata::tsig::{TsigAlgorithm, TsigError};
use hickory_proto::rr::rdata::{cert, sshfp};
use hickory_proto::rr::rdata::{
    A, AAAA, ANAME, CAA, CERT, CNAME, CSYNC, HINFO, HTTPS, MX, NAPTR, NS, NULL, OPENPGPKEY, PTR, SMIMEA, SOA, SRV, SSHFP, SVCB, TLSA, TSIG, TXT,
};
use hickory_proto::rr::{DNSClass, Name, RData, Record, RecordType, SerialNumber};
use serde_json::Value;

use vh::hk;
use vh::mon::unhex;
use vh::refwire::{self, Labels, WHeader};

// ---------------------------------------------------------------------------------------------
// field access

type R<T> = Result<T, String>;

fn int(v: &Value, k: &str) -> R<u64> {
    v.get(k).and_then(|x| x.as_u64()).ok_or_else(|| format!("spec: integer field '{k}' missing in {}", short(v)))
}
fn int_max(v: &Value, k: &str, max: u64) -> R<u64> {
    let x = int(v, k)?;
    if x > max {
        return Err(format!("spec: field '{k}' = {x} exceeds {max}"));
    }
    Ok(x)
}
fn u8f(v: &Value, k: &str) -> R<u8> {
    Ok(int_max(v, k, 0xff)? as u8)
}
fn u16f(v: &Value, k: &str) -> R<u16> {
    Ok(int_max(v, k, 0xffff)? as u16)
}
fn u32f(v: &Value, k: &str) -> R<u32> {
    Ok(int_max(v, k, 0xffff_ffff)? as u32)
}
fn flag(v: &Value, k: &str) -> R<bool> {
    v.get(k).and_then(|x| x.as_bool()).ok_or_else(|| format!("spec: bool field '{k}' missing in {}", short(v)))
}
fn strf<'a>(v: &'a Value, k: &str) -> R<&'a str> {
    v.get(k).and_then(|x| x.as_str()).ok_or_else(|| format!("spec: string field '{k}' missing in {}", short(v)))
}
fn hexv(x: &Value) -> R<Vec<u8>> {
    let s = x.as_str().ok_or("spec: hex string expected")?;
    if s.len() % 2 != 0 || !s.bytes().all(|c| c.is_ascii_hexdigit()) {
        return Err(format!("spec: bad hex '{}'", &s[..s.len().min(40)]));
    }
    Ok(unhex(s))
}
fn bytes(v: &Value, k: &str) -> R<Vec<u8>> {
    hexv(v.get(k).ok_or_else(|| format!("spec: hex field '{k}' missing in {}", short(v)))?)
}
fn list<'a>(v: &'a Value, k: &str) -> R<&'a Vec<Value>> {
    v.get(k).and_then(|x| x.as_array()).ok_or_else(|| format!("spec: list field '{k}' missing in {}", short(v)))
}
fn u16list(v: &Value, k: &str) -> R<Vec<u16>> {
    list(v, k)?.iter().map(|x| x.as_u64().filter(|n| *n <= 0xffff).map(|n| n as u16).ok_or_else(|| format!("spec: '{k}' holds a non-u16"))).collect()
}
fn short(v: &Value) -> String {
    v.to_string().chars().take(120).collect()
}

/// hex of the uncompressed wire form -> labels
pub fn name_of_wire(b: &[u8]) -> R<Labels> {
    let mut out = Vec::new();
    let mut p = 0;
    loop {
        let l = *b.get(p).ok_or("spec: name runs off its end")? as usize;
        p += 1;
        if l == 0 {
            break;
        }
        if l > 63 {
            return Err("spec: label longer than 63".into());
        }
        out.push(b.get(p..p + l).ok_or("spec: label runs off the end of the name")?.to_vec());
        p += l;
    }
    if p != b.len() {
        return Err("spec: bytes after the root label of a name".into());
    }
    if b.len() > 255 {
        return Err("spec: name longer than 255".into());
    }
    Ok(out)
}

pub fn wire_of_name(labels: &[Vec<u8>]) -> Vec<u8> {
    let mut v = Vec::new();
    refwire::put_name(&mut v, labels);
    v
}

fn labels(v: &Value, k: &str) -> R<Labels> {
    name_of_wire(&bytes(v, k)?)
}

/// A fully qualified hickory `Name` from raw labels, through `Name::from_labels`.
fn hname(l: &[Vec<u8>]) -> R<Name> {
    hk::to_name(l).map_err(|e| format!("Name::from_labels refused a name of {} wire octets: {e}", wire_of_name(l).len()))
}

// ---------------------------------------------------------------------------------------------
// boundary classes (what a failing case "contains"; also counted as coverage)

/// Priority order: the first tag of a case that appears in this list names the case in signatures.
pub const TAG_PRIORITY: &[&str] = &[
    "msg-65535",
    "name-255",
    "labels-127",
    "name-254",
    "label-63",
    "svcb-last-param-empty",
    "svcb-no-params",
    "svcb-single-param",
    "svcb-many-params",
    "txt-empty-string",
    "txt-255-string",
    "txt-many-strings",
    "charstr-255",
    "charstr-empty",
    "empty-rdata",
    "bytes-max",
    "bytes-large",
    "bytes-empty",
    "bitmap-empty",
    "bitmap-type-0",
    "bitmap-type-255",
    "bitmap-type-256",
    "bitmap-type-65535",
    "bitmap-many-windows",
    "edns-empty-typed-option",
    "edns-empty-option-last",
    "edns-ecs-prefix-0",
    "edns-ecs-full-prefix",
    "edns-padding-0",
    "edns-no-options",
    "edns-many-options",
    "tsig-empty-mac",
    "tsig-time-max",
    "ext-rcode",
    "root-name",
    "mixed-case",
    "ttl-0",
    "ttl-2^31-1",
    "ttl-2^31",
    "ttl-2^32-1",
    "u16-max",
    "class-not-in",
];

#[derive(Default, Clone, Debug)]
pub struct Tags(pub Vec<&'static str>);

impl Tags {
    pub fn add(&mut self, t: &'static str) {
        if !self.0.contains(&t) {
            self.0.push(t);
        }
    }
    pub fn merge(&mut self, o: &Tags) {
        for t in &o.0 {
            self.add(t);
        }
    }
    pub fn top(&self) -> &'static str {
        TAG_PRIORITY.iter().find(|t| self.0.contains(t)).copied().unwrap_or("plain")
    }
    fn name(&mut self, l: &[Vec<u8>]) {
        let wl: usize = l.iter().map(|x| x.len() + 1).sum::<usize>() + 1;
        if wl == 255 {
            self.add("name-255");
        }
        if wl == 254 {
            self.add("name-254");
        }
        if l.len() == 127 {
            self.add("labels-127");
        }
        if l.iter().any(|x| x.len() == 63) {
            self.add("label-63");
        }
        if l.is_empty() {
            self.add("root-name");
        }
        if l.iter().any(|x| x.iter().any(|c| c.is_ascii_uppercase())) && l.iter().any(|x| x.iter().any(|c| c.is_ascii_lowercase())) {
            self.add("mixed-case");
        }
    }
    /// `max`: what the field can hold when it has a length octet (255), else 60000 = "bounded by
    /// the message only"
    fn blob(&mut self, b: &[u8], max: usize) {
        if b.is_empty() {
            self.add("bytes-empty");
        }
        if max <= 255 && b.len() == max {
            self.add("bytes-max");
        }
        if b.len() >= 10_000 {
            self.add("bytes-large");
        }
    }
    fn charstr(&mut self, b: &[u8]) {
        if b.is_empty() {
            self.add("charstr-empty");
        }
        if b.len() == 255 {
            self.add("charstr-255");
        }
    }
    fn u16v(&mut self, x: u16) {
        if x == 0xffff {
            self.add("u16-max");
        }
    }
    fn types(&mut self, t: &[u16]) {
        if t.is_empty() {
            self.add("bitmap-empty");
        }
        for (code, tag) in [(0u16, "bitmap-type-0"), (255, "bitmap-type-255"), (256, "bitmap-type-256"), (65535, "bitmap-type-65535")] {
            if t.contains(&code) {
                self.add(tag);
            }
        }
        let mut w: Vec<u16> = t.iter().map(|x| x >> 8).collect();
        w.sort_unstable();
        w.dedup();
        if w.len() >= 3 {
            self.add("bitmap-many-windows");
        }
    }
}

// ---------------------------------------------------------------------------------------------
// harness writers

fn charstr(out: &mut Vec<u8>, s: &[u8]) -> R<()> {
    if s.len() > 255 {
        return Err("spec: character-string longer than 255".into());
    }
    out.push(s.len() as u8);
    out.extend_from_slice(s);
    Ok(())
}

/// RFC 4034 §4.1.2 type bitmap: windows ascending, bitmap trimmed after the last set bit.
fn bitmap(types: &[u16]) -> Vec<u8> {
    let mut t = types.to_vec();
    t.sort_unstable();
    t.dedup();
    let mut out = Vec::new();
    let mut i = 0;
    while i < t.len() {
        let w = (t[i] >> 8) as u8;
        let mut bits = [0u8; 32];
        let mut last = 0usize;
        while i < t.len() && (t[i] >> 8) as u8 == w {
            let lo = (t[i] & 0xff) as usize;
            bits[lo / 8] |= 0x80 >> (lo % 8);
            last = last.max(lo / 8);
            i += 1;
        }
        out.push(w);
        out.push((last + 1) as u8);
        out.extend_from_slice(&bits[..=last]);
    }
    out
}

fn rtypes(t: &[u16]) -> Vec<RecordType> {
    t.iter().map(|c| RecordType::from(*c)).collect()
}

/// RFC 8945 §6 algorithm names as written on the wire (the harness' own table).
const TSIG_ALGS: &[(&str, &str)] = &[
    ("hmac-md5", "HMAC-MD5.SIG-ALG.REG.INT"),
    ("gss-tsig", "gss-tsig"),
    ("hmac-sha1", "hmac-sha1"),
    ("hmac-sha224", "hmac-sha224"),
    ("hmac-sha256", "hmac-sha256"),
    ("hmac-sha256-128", "hmac-sha256-128"),
    ("hmac-sha384", "hmac-sha384"),
    ("hmac-sha384-192", "hmac-sha384-192"),
    ("hmac-sha512", "hmac-sha512"),
    ("hmac-sha512-256", "hmac-sha512-256"),
];
pub const TSIG_ALG_IDS: &[&str] =
    &["hmac-md5", "gss-tsig", "hmac-sha1", "hmac-sha224", "hmac-sha256", "hmac-sha256-128", "hmac-sha384", "hmac-sha384-192", "hmac-sha512", "hmac-sha512-256"];

fn tsig_alg(v: &Value) -> R<(TsigAlgorithm, Labels)> {
    let a = v.get("alg").ok_or("spec: tsig alg missing")?;
    if let Some(id) = a.as_str() {
        let alg = match id {
            "hmac-md5" => TsigAlgorithm::HmacMd5,
            "gss-tsig" => TsigAlgorithm::Gss,
            "hmac-sha1" => TsigAlgorithm::HmacSha1,
            "hmac-sha224" => TsigAlgorithm::HmacSha224,
            "hmac-sha256" => TsigAlgorithm::HmacSha256,
            "hmac-sha256-128" => TsigAlgorithm::HmacSha256_128,
            "hmac-sha384" => TsigAlgorithm::HmacSha384,
            "hmac-sha384-192" => TsigAlgorithm::HmacSha384_192,
            "hmac-sha512" => TsigAlgorithm::HmacSha512,
            "hmac-sha512-256" => TsigAlgorithm::HmacSha512_256,
            _ => return Err(format!("spec: unknown tsig algorithm id {id}")),
        };
        let text = TSIG_ALGS.iter().find(|(k, _)| *k == id).unwrap().1;
        return Ok((alg, refwire::labels_of(text)));
    }
    // an algorithm name hickory has no variant for; held the way hickory's own values are (a
    // relative `Name`: `TsigAlgorithm::to_name` of the known variants is relative as well)
    let l = labels(a, "unknown")?;
    let mut n = hname(&l)?;
    n.set_fqdn(false);
    Ok((TsigAlgorithm::Unknown(n), l))
}

// ---------------------------------------------------------------------------------------------
// RDATA: constructor call + the harness' own expected octets, side by side

pub struct BuiltRdata {
    pub data: RData,
    pub code: u16,
    pub expected: Vec<u8>,
    /// how `expected` is to be compared with hickory's octets
    pub cmp: RdCmp,
}

#[derive(Clone, Copy, PartialEq, Eq, Debug)]
pub enum RdCmp {
    /// byte for byte
    Exact,
    /// RFC 1035 well-known type: names may be compressed by the encoder; compare decompressed
    Decompressed,
    /// CAA issue / issuewild: RFC 8659 §4.2 allows optional white space inside the value; flags and
    /// tag byte for byte, the value with SP / HTAB removed
    CaaIssue,
}

/// `NULL::with` is for non-empty data (it debug-asserts that); the empty value is `NULL::new()`.
fn null_of(d: Vec<u8>) -> NULL {
    if d.is_empty() {
        NULL::new()
    } else {
        NULL::with(d)
    }
}

fn dnssec(d: DNSSECRData) -> RData {
    RData::DNSSEC(d)
}

/// `v` is a REC (or the value of an Update0). Returns the hickory RDATA and what the harness says
/// its wire form is.
pub fn rdata(v: &Value, tags: &mut Tags) -> R<BuiltRdata> {
    let t = strf(v, "t")?;
    let mut e: Vec<u8> = Vec::new();
    let mut cmp = RdCmp::Exact;
    let (data, code): (RData, u16) = match t {
        "A" => {
            let a = bytes(v, "addr")?;
            let a: [u8; 4] = a.try_into().map_err(|_| "spec: A needs 4 octets")?;
            e.extend_from_slice(&a);
            (RData::A(A::new(a[0], a[1], a[2], a[3])), 1)
        }
        "AAAA" => {
            let a = bytes(v, "addr")?;
            let a: [u8; 16] = a.try_into().map_err(|_| "spec: AAAA needs 16 octets")?;
            e.extend_from_slice(&a);
            (RData::AAAA(AAAA(Ipv6Addr::from(a))), 28)
        }
        "NS" | "CNAME" | "PTR" | "ANAME" => {
            let l = labels(v, "name")?;
            tags.name(&l);
            refwire::put_name(&mut e, &l);
            let n = hname(&l)?;
            match t {
                "NS" => {
                    cmp = RdCmp::Decompressed;
                    (RData::NS(NS(n)), 2)
                }
                "CNAME" => {
                    cmp = RdCmp::Decompressed;
                    (RData::CNAME(CNAME(n)), 5)
                }
                "PTR" => {
                    cmp = RdCmp::Decompressed;
                    (RData::PTR(PTR(n)), 12)
                }
                _ => (RData::ANAME(ANAME(n)), 65305),
            }
        }
        "MX" => {
            let (p, l) = (u16f(v, "pref")?, labels(v, "name")?);
            tags.name(&l);
            tags.u16v(p);
            e.extend_from_slice(&p.to_be_bytes());
            refwire::put_name(&mut e, &l);
            cmp = RdCmp::Decompressed;
            (RData::MX(MX::new(p, hname(&l)?)), 15)
        }
        "SOA" => {
            let (m, r) = (labels(v, "mname")?, labels(v, "rname")?);
            tags.name(&m);
            tags.name(&r);
            let f = [u32f(v, "serial")?, u32f(v, "refresh")?, u32f(v, "retry")?, u32f(v, "expire")?, u32f(v, "minimum")?];
            refwire::put_name(&mut e, &m);
            refwire::put_name(&mut e, &r);
            for x in f {
                e.extend_from_slice(&x.to_be_bytes());
            }
            cmp = RdCmp::Decompressed;
            // refresh / retry / expire are `i32` in hickory's API: the same 32 bits
            (RData::SOA(SOA::new(hname(&m)?, hname(&r)?, f[0], f[1] as i32, f[2] as i32, f[3] as i32, f[4])), 6)
        }
        "SRV" => {
            let (p, w, port, l) = (u16f(v, "prio")?, u16f(v, "weight")?, u16f(v, "port")?, labels(v, "name")?);
            tags.name(&l);
            tags.u16v(p);
            tags.u16v(port);
            for x in [p, w, port] {
                e.extend_from_slice(&x.to_be_bytes());
            }
            refwire::put_name(&mut e, &l);
            (RData::SRV(SRV::new(p, w, port, hname(&l)?)), 33)
        }
        "NAPTR" => {
            let (o, p) = (u16f(v, "order")?, u16f(v, "pref")?);
            let (fl, sv, re, l) = (bytes(v, "flags")?, bytes(v, "services")?, bytes(v, "regexp")?, labels(v, "name")?);
            tags.name(&l);
            for s in [&fl, &sv, &re] {
                tags.charstr(s);
            }
            e.extend_from_slice(&o.to_be_bytes());
            e.extend_from_slice(&p.to_be_bytes());
            charstr(&mut e, &fl)?;
            charstr(&mut e, &sv)?;
            charstr(&mut e, &re)?;
            refwire::put_name(&mut e, &l);
            (RData::NAPTR(NAPTR::new(o, p, fl.into_boxed_slice(), sv.into_boxed_slice(), re.into_boxed_slice(), hname(&l)?)), 35)
        }
        "HINFO" => {
            let (c, o) = (bytes(v, "cpu")?, bytes(v, "os")?);
            tags.charstr(&c);
            tags.charstr(&o);
            charstr(&mut e, &c)?;
            charstr(&mut e, &o)?;
            (RData::HINFO(HINFO::from_bytes(c.into_boxed_slice(), o.into_boxed_slice())), 13)
        }
        "TXT" => {
            let ss: Vec<Vec<u8>> = list(v, "strings")?.iter().map(hexv).collect::<R<_>>()?;
            if ss.is_empty() {
                return Err("spec: TXT needs at least one string".into());
            }
            for s in &ss {
                charstr(&mut e, s)?;
                if s.is_empty() {
                    tags.add("txt-empty-string");
                }
                if s.len() == 255 {
                    tags.add("txt-255-string");
                }
            }
            if ss.len() >= 8 {
                tags.add("txt-many-strings");
            }
            (RData::TXT(TXT::from_bytes(ss.iter().map(|s| s.as_slice()).collect())), 16)
        }
        "NULL" => {
            let d = bytes(v, "data")?;
            tags.blob(&d, 60000);
            e.extend_from_slice(&d);
            (RData::NULL(null_of(d)), 10)
        }
        "OPENPGPKEY" => {
            let d = bytes(v, "data")?;
            tags.blob(&d, 60000);
            e.extend_from_slice(&d);
            (RData::OPENPGPKEY(OPENPGPKEY::new(d)), 61)
        }
        "Unknown" => {
            let (c, d) = (u16f(v, "code")?, bytes(v, "data")?);
            if !matches!(RecordType::from(c), RecordType::Unknown(_)) {
                return Err(format!("spec: {c} is not an unknown type code"));
            }
            tags.blob(&d, 60000);
            e.extend_from_slice(&d);
            (RData::Unknown { code: RecordType::Unknown(c), rdata: null_of(d) }, c)
        }
        "CAA" => {
            let critical = flag(v, "critical")?;
            let kind = strf(v, "kind")?;
            let caa = match kind {
                "issue" | "issuewild" => {
                    // RFC 8659 §4.2: issue-value = [issuer-domain-name] [";" parameters]
                    let dom = v.get("domain").and_then(|d| d.as_str());
                    let kvs: Vec<(String, String)> = list(v, "params")?
                        .iter()
                        .map(|p| Ok((strf(p, "k")?.to_string(), strf(p, "v")?.to_string())))
                        .collect::<R<_>>()?;
                    e.push(if critical { 0x80 } else { 0 });
                    e.push(kind.len() as u8);
                    e.extend_from_slice(kind.as_bytes());
                    if let Some(d) = dom {
                        e.extend_from_slice(d.as_bytes());
                    }
                    if dom.is_none() && kvs.is_empty() {
                        e.push(b';');
                    }
                    for (k, val) in &kvs {
                        // "; " as in the RFC's own examples ("ca1.example.net; account=230123");
                        // clause (iv) ignores the optional white space, clause (v) feeds it as is
                        e.extend_from_slice(format!("; {k}={val}").as_bytes());
                    }
                    cmp = RdCmp::CaaIssue;
                    let name = match dom {
                        Some(d) => Some(Name::from_ascii(d).map_err(|x| format!("Name::from_ascii({d}): {x}"))?),
                        None => None,
                    };
                    let opts: Vec<KeyValue> = kvs.iter().map(|(k, val)| KeyValue::new(k.clone(), val.clone())).collect();
                    if kind == "issue" {
                        CAA::new_issue(critical, name, opts)
                    } else {
                        CAA::new_issuewild(critical, name, opts)
                    }
                }
                "iodef" => {
                    // the URL must be given in its normal form (the `url` crate re-serialises it)
                    let url = strf(v, "url")?;
                    e.push(if critical { 0x80 } else { 0 });
                    e.push(5);
                    e.extend_from_slice(b"iodef");
                    e.extend_from_slice(url.as_bytes());
                    // `url::Url` is not nameable from this crate; the only public way to a value of
                    // that type is CAA's own URL accessor (the `url` crate's parser, no DNS decoder)
                    let mut probe = CAA::new_issue(false, None, vec![]);
                    probe.tag = "iodef".into();
                    probe.value = url.as_bytes().to_vec();
                    let u = probe.value_as_iodef().map_err(|x| format!("CAA::value_as_iodef({url}): {x}"))?;
                    CAA::new_iodef(critical, u)
                }
                "unknown" => {
                    // any other property: the public fields of a constructed value
                    let (tag, val, rf) = (strf(v, "tag")?, bytes(v, "value")?, u8f(v, "reserved")?);
                    if tag.is_empty() || tag.len() > 15 || !tag.bytes().all(|c| c.is_ascii_alphanumeric()) || rf > 0x7f {
                        return Err("spec: CAA tag must be 1..15 alphanumerics, reserved flags 7 bits".into());
                    }
                    tags.blob(&val, 60000);
                    e.push(rf | if critical { 0x80 } else { 0 });
                    e.push(tag.len() as u8);
                    e.extend_from_slice(tag.as_bytes());
                    e.extend_from_slice(&val);
                    let mut c = CAA::new_issue(critical, None, vec![]);
                    c.tag = tag.to_string();
                    c.value = val;
                    c.reserved_flags = rf;
                    c
                }
                _ => return Err(format!("spec: CAA kind {kind}")),
            };
            (RData::CAA(caa), 257)
        }
        "CERT" => {
            let (ct, kt, al, d) = (u16f(v, "ctype")?, u16f(v, "keytag")?, u8f(v, "alg")?, bytes(v, "data")?);
            if d.is_empty() {
                return Err("spec: CERT needs certificate octets".into());
            }
            tags.blob(&d, 60000);
            tags.u16v(ct);
            e.extend_from_slice(&ct.to_be_bytes());
            e.extend_from_slice(&kt.to_be_bytes());
            e.push(al);
            e.extend_from_slice(&d);
            (RData::CERT(CERT::new(cert::CertType::from(ct), kt, cert::Algorithm::from(al), d)), 37)
        }
        "CSYNC" => {
            let (s, im, mi, ts) = (u32f(v, "serial")?, flag(v, "immediate")?, flag(v, "soamin")?, u16list(v, "types")?);
            tags.types(&ts);
            e.extend_from_slice(&s.to_be_bytes());
            e.extend_from_slice(&((im as u16) | ((mi as u16) << 1)).to_be_bytes());
            e.extend_from_slice(&bitmap(&ts));
            (RData::CSYNC(CSYNC::new(s, im, mi, rtypes(&ts))), 62)
        }
        "SSHFP" => {
            let (al, ft, fp) = (u8f(v, "alg")?, u8f(v, "fptype")?, bytes(v, "fp")?);
            tags.blob(&fp, 60000);
            e.push(al);
            e.push(ft);
            e.extend_from_slice(&fp);
            (RData::SSHFP(SSHFP::new(sshfp::Algorithm::from(al), sshfp::FingerprintType::from(ft), fp)), 44)
        }
        "TLSA" | "SMIMEA" => {
            let (u, s, m, d) = (u8f(v, "usage")?, u8f(v, "selector")?, u8f(v, "matching")?, bytes(v, "data")?);
            tags.blob(&d, 60000);
            e.extend_from_slice(&[u, s, m]);
            e.extend_from_slice(&d);
            if t == "TLSA" {
                (RData::TLSA(TLSA::new(CertUsage::from(u), Selector::from(s), Matching::from(m), d)), 52)
            } else {
                (RData::SMIMEA(SMIMEA::new(CertUsage::from(u), Selector::from(s), Matching::from(m), d)), 53)
            }
        }
        "SVCB" | "HTTPS" => {
            let (p, l) = (u16f(v, "prio")?, labels(v, "name")?);
            tags.name(&l);
            e.extend_from_slice(&p.to_be_bytes());
            refwire::put_name(&mut e, &l);
            let ps = list(v, "params")?;
            let mut params: Vec<(SvcParamKey, SvcParamValue)> = Vec::new();
            let mut last_len = None;
            let mut prev: Option<u16> = None;
            for pv in ps {
                let key = u16f(pv, "key")?;
                if prev.is_some_and(|q| q >= key) || key == 65535 {
                    return Err("spec: SvcParamKeys must ascend strictly and 65535 is reserved".into());
                }
                prev = Some(key);
                let mut val: Vec<u8> = Vec::new();
                // RFC 9460 §2.2 / §7: value formats per key
                let hv = match key {
                    0 => {
                        let ks = u16list(pv, "mandatory")?;
                        if ks.is_empty() {
                            return Err("spec: mandatory needs keys".into());
                        }
                        for k in &ks {
                            val.extend_from_slice(&k.to_be_bytes());
                        }
                        SvcParamValue::Mandatory(Mandatory(ks.iter().map(|k| SvcParamKey::from(*k)).collect()))
                    }
                    1 => {
                        let ids: Vec<String> = list(pv, "alpn")?.iter().map(|x| x.as_str().map(String::from).ok_or("spec: alpn id")).collect::<Result<_, _>>()?;
                        if ids.is_empty() || ids.iter().any(|i| i.is_empty() || i.len() > 255) {
                            return Err("spec: alpn ids 1..255 octets, at least one".into());
                        }
                        for i in &ids {
                            charstr(&mut val, i.as_bytes())?;
                        }
                        SvcParamValue::Alpn(Alpn(ids))
                    }
                    2 => SvcParamValue::NoDefaultAlpn,
                    3 => {
                        let port = u16f(pv, "port")?;
                        val.extend_from_slice(&port.to_be_bytes());
                        SvcParamValue::Port(port)
                    }
                    4 => {
                        let mut hs = Vec::new();
                        for a in list(pv, "ipv4")? {
                            let a: [u8; 4] = hexv(a)?.try_into().map_err(|_| "spec: ipv4hint octets")?;
                            val.extend_from_slice(&a);
                            hs.push(A(Ipv4Addr::from(a)));
                        }
                        if hs.is_empty() {
                            return Err("spec: ipv4hint needs addresses".into());
                        }
                        SvcParamValue::Ipv4Hint(IpHint(hs))
                    }
                    5 => {
                        let d = bytes(pv, "ech")?;
                        val.extend_from_slice(&d);
                        SvcParamValue::EchConfigList(EchConfigList(d))
                    }
                    6 => {
                        let mut hs = Vec::new();
                        for a in list(pv, "ipv6")? {
                            let a: [u8; 16] = hexv(a)?.try_into().map_err(|_| "spec: ipv6hint octets")?;
                            val.extend_from_slice(&a);
                            hs.push(AAAA(Ipv6Addr::from(a)));
                        }
                        if hs.is_empty() {
                            return Err("spec: ipv6hint needs addresses".into());
                        }
                        SvcParamValue::Ipv6Hint(IpHint(hs))
                    }
                    _ => {
                        let d = bytes(pv, "unknown")?;
                        val.extend_from_slice(&d);
                        SvcParamValue::Unknown(SvcUnknown(d))
                    }
                };
                e.extend_from_slice(&key.to_be_bytes());
                e.extend_from_slice(&(val.len() as u16).to_be_bytes());
                e.extend_from_slice(&val);
                last_len = Some(val.len());
                params.push((SvcParamKey::from(key), hv));
            }
            match params.len() {
                0 => tags.add("svcb-no-params"),
                1 => tags.add("svcb-single-param"),
                n if n >= 6 => tags.add("svcb-many-params"),
                _ => {}
            }
            if last_len == Some(0) {
                tags.add("svcb-last-param-empty");
            }
            let s = SVCB::new(p, hname(&l)?, params);
            if t == "SVCB" {
                (RData::SVCB(s), 64)
            } else {
                (RData::HTTPS(HTTPS(s)), 65)
            }
        }
        "DNSKEY" => {
            let (f, al, k) = (u16f(v, "flags")?, u8f(v, "alg")?, bytes(v, "key")?);
            tags.blob(&k, 60000);
            tags.u16v(f);
            e.extend_from_slice(&f.to_be_bytes());
            e.push(3);
            e.push(al);
            e.extend_from_slice(&k);
            let pk = PublicKeyBuf::new(k, Algorithm::from_u8(al));
            // both public constructors: the three-flag one where the flags allow it
            let d = if f & !0x0181 == 0 { DNSKEY::new(f & 0x100 != 0, f & 1 != 0, f & 0x80 != 0, pk) } else { DNSKEY::with_flags(f, pk) };
            (dnssec(DNSSECRData::DNSKEY(d)), 48)
        }
        "CDNSKEY" => {
            // alg 0 = the RFC 8078 delete form (`None` in hickory's API)
            let (f, al, k) = (u16f(v, "flags")?, u8f(v, "alg")?, bytes(v, "key")?);
            tags.blob(&k, 60000);
            e.extend_from_slice(&f.to_be_bytes());
            e.push(3);
            e.push(al);
            e.extend_from_slice(&k);
            let a = if al == 0 { None } else { Some(Algorithm::from_u8(al)) };
            let d = if f & !0x0181 == 0 { CDNSKEY::new(f & 0x100 != 0, f & 1 != 0, f & 0x80 != 0, a, k) } else { CDNSKEY::with_flags(f, a, k) };
            (dnssec(DNSSECRData::CDNSKEY(d)), 60)
        }
        "DS" | "CDS" => {
            let (kt, al, dt, d) = (u16f(v, "keytag")?, u8f(v, "alg")?, u8f(v, "dtype")?, bytes(v, "digest")?);
            tags.blob(&d, 60000);
            tags.u16v(kt);
            e.extend_from_slice(&kt.to_be_bytes());
            e.push(al);
            e.push(dt);
            e.extend_from_slice(&d);
            if t == "DS" {
                (dnssec(DNSSECRData::DS(DS::new(kt, Algorithm::from_u8(al), DigestType::from(dt), d))), 43)
            } else {
                let a = if al == 0 { None } else { Some(Algorithm::from_u8(al)) };
                (dnssec(DNSSECRData::CDS(CDS::new(kt, a, DigestType::from(dt), d))), 59)
            }
        }
        "KEY" => {
            // RFC 2535 §3.1.2 flags: A/C (bits 0-1), NAMTYP (6-7), SIG (12-15); the rest must be 0
            let (f, pr, al, k) = (u16f(v, "flags")?, u8f(v, "proto")?, u8f(v, "alg")?, bytes(v, "key")?);
            if f & 0b0011_1100_1111_0000 != 0 {
                return Err("spec: KEY reserved / extension flag bits must be clear".into());
            }
            tags.blob(&k, 60000);
            e.extend_from_slice(&f.to_be_bytes());
            e.push(pr);
            e.push(al);
            e.extend_from_slice(&k);
            #[allow(deprecated)]
            let trust = match f >> 14 {
                0 => KeyTrust::AuthOrPrivate,
                1 => KeyTrust::NotPrivate,
                2 => KeyTrust::NotAuth,
                _ => KeyTrust::DoNotTrust,
            };
            #[allow(deprecated)]
            let usage = match (f >> 8) & 3 {
                0 => KeyUsage::Host,
                1 => KeyUsage::Zone,
                2 => KeyUsage::Entity,
                _ => KeyUsage::Reserved,
            };
            #[allow(deprecated)]
            let scope = UpdateScope { zone: f & 8 != 0, strong: f & 4 != 0, unique: f & 2 != 0, general: f & 1 != 0 };
            #[allow(deprecated)]
            let d = KEY::new(trust, usage, scope, Protocol::from(pr), Algorithm::from_u8(al), k);
            (dnssec(DNSSECRData::KEY(d)), 25)
        }
        "NSEC" => {
            let (l, ts) = (labels(v, "name")?, u16list(v, "types")?);
            tags.name(&l);
            tags.types(&ts);
            refwire::put_name(&mut e, &l);
            e.extend_from_slice(&bitmap(&ts));
            (dnssec(DNSSECRData::NSEC(NSEC::new(hname(&l)?, rtypes(&ts)))), 47)
        }
        "NSEC3" | "NSEC3PARAM" => {
            let (oo, it, salt) = (flag(v, "optout")?, u16f(v, "iter")?, bytes(v, "salt")?);
            if salt.len() > 255 {
                return Err("spec: salt longer than 255".into());
            }
            tags.blob(&salt, 255);
            tags.u16v(it);
            e.push(1);
            e.push(oo as u8);
            e.extend_from_slice(&it.to_be_bytes());
            e.push(salt.len() as u8);
            e.extend_from_slice(&salt);
            if t == "NSEC3" {
                let (next, ts) = (bytes(v, "next")?, u16list(v, "types")?);
                if next.len() > 255 {
                    return Err("spec: next hashed owner longer than 255".into());
                }
                tags.blob(&next, 255);
                tags.types(&ts);
                e.push(next.len() as u8);
                e.extend_from_slice(&next);
                e.extend_from_slice(&bitmap(&ts));
                (dnssec(DNSSECRData::NSEC3(NSEC3::new(Nsec3HashAlgorithm::SHA1, oo, it, salt, next, rtypes(&ts)))), 50)
            } else {
                (dnssec(DNSSECRData::NSEC3PARAM(NSEC3PARAM::new(Nsec3HashAlgorithm::SHA1, oo, it, salt))), 51)
            }
        }
        "RRSIG" | "SIG" => {
            let (cov, al, nl) = (u16f(v, "covered")?, u8f(v, "alg")?, u8f(v, "labels")?);
            let (ot, ex, inc, kt) = (u32f(v, "ottl")?, u32f(v, "exp")?, u32f(v, "inc")?, u16f(v, "keytag")?);
            let (l, sig) = (labels(v, "name")?, bytes(v, "sig")?);
            tags.name(&l);
            tags.blob(&sig, 60000);
            e.extend_from_slice(&cov.to_be_bytes());
            e.push(al);
            e.push(nl);
            for x in [ot, ex, inc] {
                e.extend_from_slice(&x.to_be_bytes());
            }
            e.extend_from_slice(&kt.to_be_bytes());
            refwire::put_name(&mut e, &l);
            e.extend_from_slice(&sig);
            let input = SigInput {
                type_covered: RecordType::from(cov),
                algorithm: Algorithm::from_u8(al),
                num_labels: nl,
                original_ttl: ot,
                sig_expiration: SerialNumber::new(ex),
                sig_inception: SerialNumber::new(inc),
                key_tag: kt,
                signer_name: hname(&l)?,
            };
            let rrsig = RRSIG::from_sig(input, sig);
            if t == "RRSIG" {
                (dnssec(DNSSECRData::RRSIG(rrsig)), 46)
            } else {
                // `SIG` has no constructor of its own; an owned value is public API all the same:
                // `RRSIG: Deref<Target = SIG>` and `SIG: Clone`
                let sig: &hickory_proto::dnssec::rdata::SIG = &rrsig;
                (dnssec(DNSSECRData::SIG(sig.clone())), 24)
            }
        }
        "Update0" => {
            let c = u16f(v, "code")?;
            (RData::Update0(RecordType::from(c)), c)
        }
        _ => return Err(format!("spec: unknown record kind '{t}'")),
    };
    if e.is_empty() && t != "Update0" {
        tags.add("empty-rdata");
    }
    Ok(BuiltRdata { data, code, expected: e, cmp })
}

// ---------------------------------------------------------------------------------------------
// EDNS options

/// DAU order is not significant (a set); everything else is compared in order.
pub fn option(v: &Value, tags: &mut Tags) -> R<(EdnsOption, u16, Vec<u8>)> {
    match strf(v, "k")? {
        "DAU" => {
            // RFC 6975: list of algorithm numbers, one octet each
            let algs: Vec<u8> = list(v, "algs")?.iter().map(|x| x.as_u64().filter(|n| *n <= 255).map(|n| n as u8).ok_or("spec: DAU alg")).collect::<Result<_, _>>()?;
            let mut s = SupportedAlgorithms::new();
            for a in &algs {
                if ![5u8, 7, 8, 10, 13, 14, 15].contains(a) {
                    return Err(format!("spec: DAU algorithm {a} is not representable in SupportedAlgorithms"));
                }
                s.set(Algorithm::from_u8(*a));
            }
            if algs.is_empty() {
                tags.add("edns-empty-typed-option");
            }
            let mut sorted = algs.clone();
            sorted.sort_unstable();
            sorted.dedup();
            Ok((EdnsOption::DAU(s), 5, sorted))
        }
        "Subnet" => {
            // RFC 7871 §6: FAMILY, SOURCE PREFIX-LENGTH, SCOPE PREFIX-LENGTH, ADDRESS truncated to
            // ceil(source/8) octets with the bits after the prefix zero
            let (fam, src, scope, addr) = (int(v, "fam")?, u8f(v, "src")?, u8f(v, "scope")?, bytes(v, "addr")?);
            let width = if fam == 4 { 32 } else { 128 };
            if (fam != 4 && fam != 6) || addr.len() * 8 != width || src as usize > width || scope as usize > width {
                return Err("spec: bad client subnet".into());
            }
            let n = (src as usize).div_ceil(8);
            for (i, o) in addr.iter().enumerate() {
                let keep: u8 = if i < src as usize / 8 {
                    0xff
                } else if i == src as usize / 8 && src % 8 != 0 {
                    0xffu8 << (8 - src % 8)
                } else {
                    0
                };
                if o & !keep != 0 {
                    return Err("spec: client subnet address has bits set beyond the source prefix".into());
                }
            }
            if src == 0 {
                tags.add("edns-ecs-prefix-0");
            }
            if src as usize == width {
                tags.add("edns-ecs-full-prefix");
            }
            let mut e = vec![0, if fam == 4 { 1 } else { 2 }, src, scope];
            e.extend_from_slice(&addr[..n]);
            let ip = if fam == 4 {
                IpAddr::V4(Ipv4Addr::from(<[u8; 4]>::try_from(addr.as_slice()).unwrap()))
            } else {
                IpAddr::V6(Ipv6Addr::from(<[u8; 16]>::try_from(addr.as_slice()).unwrap()))
            };
            Ok((EdnsOption::Subnet(ClientSubnet::new(ip, src, scope)), 8, e))
        }
        "NSID" => {
            let d = bytes(v, "data")?;
            if d.is_empty() {
                tags.add("edns-empty-typed-option");
            }
            Ok((EdnsOption::NSID(NSIDPayload::new(d.clone()).map_err(|x| x.to_string())?), 3, d))
        }
        "Unknown" => {
            let (c, d) = (u16f(v, "code")?, bytes(v, "data")?);
            if [3u16, 5, 8].contains(&c) {
                return Err("spec: codes 3 / 5 / 8 have option variants of their own".into());
            }
            if c == 12 && d.is_empty() {
                tags.add("edns-padding-0");
            }
            Ok((EdnsOption::Unknown(c, d.clone()), c, d))
        }
        k => Err(format!("spec: option kind {k}")),
    }
}

// ---------------------------------------------------------------------------------------------
// whole message

pub struct BuiltRecord {
    pub tname: String,
    pub owner: Labels,
    pub code: u16,
    pub class: u16,
    pub ttl: u32,
    pub expected: Vec<u8>,
    pub cmp: RdCmp,
    pub tags: Tags,
}

pub struct Built {
    pub msg: Message,
    /// the harness' own uncompressed encoding of the same field values
    pub wire: Vec<u8>,
    pub flags: u16,
    pub id: u16,
    pub questions: Vec<(Labels, u16, u16)>,
    /// answers, authorities, additionals (without OPT / TSIG)
    pub sections: [Vec<BuiltRecord>; 3],
    /// (class, ttl, options as (code, canonical data))
    pub opt: Option<(u16, u32, Vec<(u16, Vec<u8>)>)>,
    pub tsig: Option<BuiltRecord>,
    /// tags of the header / questions / OPT (records carry their own)
    pub tags: Tags,
}

impl Built {
    pub fn all_tags(&self) -> Tags {
        let mut t = self.tags.clone();
        for s in &self.sections {
            for r in s {
                t.merge(&r.tags);
            }
        }
        if let Some(r) = &self.tsig {
            t.merge(&r.tags);
        }
        t
    }
}

fn ttl_tags(t: &mut Tags, ttl: u32, class: u16) {
    match ttl {
        0 => t.add("ttl-0"),
        0x7fff_ffff => t.add("ttl-2^31-1"),
        0x8000_0000 => t.add("ttl-2^31"),
        0xffff_ffff => t.add("ttl-2^32-1"),
        _ => {}
    }
    if class != 1 {
        t.add("class-not-in");
    }
}

pub const SECTION_KEYS: [&str; 3] = ["an", "ns", "ar"];

pub fn build(spec: &Value) -> R<Built> {
    let mut tags = Tags::default();
    let id = u16f(spec, "id")?;
    let opcode = int_max(spec, "opcode", 15)? as u8;
    let rcode = int_max(spec, "rcode", 4095)? as u16;
    let qr = flag(spec, "qr")?;
    let fl = [flag(spec, "aa")?, flag(spec, "tc")?, flag(spec, "rd")?, flag(spec, "ra")?, flag(spec, "ad")?, flag(spec, "cd")?];
    let has_edns = spec.get("edns").is_some_and(|e| !e.is_null());
    if rcode > 15 {
        if !has_edns {
            return Err("spec: an extended rcode needs EDNS".into());
        }
        tags.add("ext-rcode");
    }

    // --- hickory value: header
    let mut m = Message::new(id, if qr { MessageType::Response } else { MessageType::Query }, OpCode::from_u8(opcode));
    m.metadata.authoritative = fl[0];
    m.metadata.truncation = fl[1];
    m.metadata.recursion_desired = fl[2];
    m.metadata.recursion_available = fl[3];
    m.metadata.authentic_data = fl[4];
    m.metadata.checking_disabled = fl[5];
    m.metadata.response_code = ResponseCode::from((rcode >> 4) as u8, (rcode & 0xf) as u8);
    // --- harness wire: header (RFC 1035 §4.1.1, AD / CD per RFC 4035 §3)
    let flags: u16 = ((qr as u16) << 15)
        | ((opcode as u16) << 11)
        | ((fl[0] as u16) << 10)
        | ((fl[1] as u16) << 9)
        | ((fl[2] as u16) << 8)
        | ((fl[3] as u16) << 7)
        | ((fl[4] as u16) << 5)
        | ((fl[5] as u16) << 4)
        | (rcode & 0xf);

    let mut body: Vec<u8> = Vec::new();
    let mut questions = Vec::new();
    for q in list(spec, "q")? {
        let (l, t, c) = (labels(q, "name")?, u16f(q, "type")?, u16f(q, "class")?);
        tags.name(&l);
        let mut hq = Query::new(hname(&l)?, RecordType::from(t));
        hq.set_query_class(DNSClass::from(c));
        m.add_query(hq);
        refwire::put_question(&mut body, &l, t, c);
        questions.push((l, t, c));
    }

    let mut sections: [Vec<BuiltRecord>; 3] = [Vec::new(), Vec::new(), Vec::new()];
    for (si, key) in SECTION_KEYS.iter().enumerate() {
        for rv in list(spec, key)? {
            let mut rt = Tags::default();
            let (owner, class, ttl) = (labels(rv, "owner")?, u16f(rv, "class")?, u32f(rv, "ttl")?);
            rt.name(&owner);
            ttl_tags(&mut rt, ttl, class);
            let b = rdata(rv, &mut rt)?;
            let tname = strf(rv, "t")?.to_string();
            if tname == "Update0" && opcode != 5 {
                return Err("spec: Update0 records only in UPDATE messages".into());
            }
            if b.expected.is_empty() && tname != "Update0" && opcode == 5 {
                return Err("spec: a record with empty RDATA is not distinguishable from RFC 2136's RDLENGTH 0 forms in an UPDATE message".into());
            }
            if tname == "SIG" && si != 2 {
                return Err("spec: SIG records only in the additional section".into());
            }
            let mut rec = Record::from_rdata(hname(&owner)?, ttl, b.data);
            rec.dns_class = DNSClass::from(class);
            match si {
                0 => m.add_answer(rec),
                1 => m.add_authority(rec),
                _ => m.add_additional(rec),
            };
            refwire::put_record(&mut body, &owner, b.code, class, ttl, &b.expected);
            sections[si].push(BuiltRecord { tname, owner, code: b.code, class, ttl, expected: b.expected, cmp: b.cmp, tags: rt });
        }
    }

    let mut opt = None;
    if has_edns {
        let ev = &spec["edns"];
        let (ver, d_o, z, payload) = (u8f(ev, "version")?, flag(ev, "do")?, int_max(ev, "z", 0x7fff)? as u16, u16f(ev, "payload")?);
        let mut ed = Edns::new();
        ed.set_version(ver);
        ed.set_dnssec_ok(d_o);
        ed.flags_mut().z = z;
        ed.set_max_payload(payload);
        let mut wire_opts = Vec::new();
        let mut ordata = Vec::new();
        let ovs = list(ev, "opts")?;
        for ov in ovs {
            let (o, code, data) = option(ov, &mut tags)?;
            ed.options_mut().insert(o);
            ordata.extend_from_slice(&code.to_be_bytes());
            ordata.extend_from_slice(&(data.len() as u16).to_be_bytes());
            ordata.extend_from_slice(&data);
            wire_opts.push((code, data));
        }
        match ovs.len() {
            0 => tags.add("edns-no-options"),
            n if n >= 5 => tags.add("edns-many-options"),
            _ => {}
        }
        if wire_opts.last().is_some_and(|(_, d)| d.is_empty()) {
            tags.add("edns-empty-option-last");
        }
        m.edns = Some(ed);
        // RFC 6891 §6.1.2/6.1.3: CLASS = payload size (values < 512 are treated as 512: hickory's
        // setter stores 512), TTL = ext-rcode | version | DO | Z
        let class = payload.max(512);
        let ttl = (((rcode >> 4) as u32) << 24) | ((ver as u32) << 16) | ((d_o as u32) << 15) | z as u32;
        refwire::put_record(&mut body, &[], 41, class, ttl, &ordata);
        opt = Some((class, ttl, wire_opts));
    }

    let mut tsig = None;
    if let Some(tv) = spec.get("tsig").filter(|t| !t.is_null()) {
        let mut rt = Tags::default();
        let (owner, class, ttl) = (labels(tv, "owner")?, u16f(tv, "class")?, u32f(tv, "ttl")?);
        rt.name(&owner);
        let (alg, alg_labels) = tsig_alg(tv)?;
        rt.name(&alg_labels);
        let time = int_max(tv, "time", 0xffff_ffff_ffff)?;
        let (fudge, mac, oid, error, other) = (u16f(tv, "fudge")?, bytes(tv, "mac")?, u16f(tv, "oid")?, u16f(tv, "error")?, bytes(tv, "other")?);
        if mac.is_empty() {
            rt.add("tsig-empty-mac");
        }
        if time == 0xffff_ffff_ffff {
            rt.add("tsig-time-max");
        }
        // RFC 8945 §4.2
        let mut e = Vec::new();
        refwire::put_name(&mut e, &alg_labels);
        e.extend_from_slice(&time.to_be_bytes()[2..]);
        e.extend_from_slice(&fudge.to_be_bytes());
        e.extend_from_slice(&(mac.len() as u16).to_be_bytes());
        e.extend_from_slice(&mac);
        e.extend_from_slice(&oid.to_be_bytes());
        e.extend_from_slice(&error.to_be_bytes());
        e.extend_from_slice(&(other.len() as u16).to_be_bytes());
        e.extend_from_slice(&other);
        let err = if error == 0 { None } else { Some(TsigError::from(error)) };
        let mut rec = Record::from_rdata(hname(&owner)?, ttl, TSIG::new(alg, time, fudge, mac, oid, err, other));
        rec.dns_class = DNSClass::from(class);
        m.signature = Some(Box::new(rec));
        refwire::put_record(&mut body, &owner, 250, class, ttl, &e);
        tsig = Some(BuiltRecord { tname: "TSIG".into(), owner, code: 250, class, ttl, expected: e, cmp: RdCmp::Exact, tags: rt });
    }

    let mut wire = Vec::with_capacity(12 + body.len());
    let ar = sections[2].len() + opt.is_some() as usize + tsig.is_some() as usize;
    for n in [questions.len(), sections[0].len(), sections[1].len(), ar] {
        if n > 0xffff {
            return Err("spec: section too long".into());
        }
    }
    refwire::put_header(&mut wire, &WHeader { id, flags, qd: questions.len() as u16, an: sections[0].len() as u16, ns: sections[1].len() as u16, ar: ar as u16 });
    wire.extend_from_slice(&body);
    if wire.len() == 65535 {
        tags.add("msg-65535");
    }
    Ok(Built { msg: m, wire, flags, id, questions, sections, opt, tsig, tags })
}

/// CAA issue / issuewild value with optional white space removed (RFC 8659 §4.2 `*WSP`).
pub fn caa_strip(rd: &[u8]) -> Vec<u8> {
    let Some(&tl) = rd.get(1) else { return rd.to_vec() };
    let cut = (2 + tl as usize).min(rd.len());
    let mut out = rd[..cut].to_vec();
    out.extend(rd[cut..].iter().filter(|c| **c != b' ' && **c != b'\t'));
    out
}

/// OPT RDATA -> (code, data) list, DAU data sorted. None when the option framing is broken.
pub fn parse_opt_rdata(rd: &[u8]) -> Option<Vec<(u16, Vec<u8>)>> {
    let mut out = Vec::new();
    let mut p = 0;
    while p < rd.len() {
        let code = u16::from_be_bytes([*rd.get(p)?, *rd.get(p + 1)?]);
        let len = u16::from_be_bytes([*rd.get(p + 2)?, *rd.get(p + 3)?]) as usize;
        let mut d = rd.get(p + 4..p + 4 + len)?.to_vec();
        if code == 5 {
            d.sort_unstable();
        }
        out.push((code, d));
        p += 4 + len;
    }
    Some(out)
}
