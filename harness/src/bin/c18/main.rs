//! C18 — a lookup succeeds if any configured server can answer, within the deadline; a truncated
//! UDP reply is retried over TCP; an untrusted NXDOMAIN does not end the search; concurrent
//! identical queries share one upstream exchange.
//!
//! Technique: runtime monitoring. The real `NameServerPool` (the layer that implements fail-over,
//! the end-to-end deadline *and* the in-flight request sharing) is driven through
//! `DnsHandle::send` over a scripted `ConnectionProvider` (`sim.rs`) on a current-thread tokio
//! runtime with the clock paused: every delay is virtual, auto-advance makes completion times
//! exact and deterministic, hook H4 puts the pool's deadline on the same clock. The provider logs
//! every connection attempt / request / reply with its virtual time; `oracle.rs` judges the
//! callers' results and the log against the statement (see the rule list and the don't-cares there).
//!
//! Workload: (a) enumeration of all ordered pairs and triples (thorough: 4-tuples) of 14 server profiles ×
//! 3 ordering strategies × num_concurrent_reqs × timeout with two identical callers and a later
//! identical query; (b) seeded random scenarios: 1–4 servers, per-protocol behaviours {answer,
//! NXDOMAIN ± trust, truncated, silent, io error, busy k times, connect failure} with delays
//! relative to the timeout, UDP-only / TCP-only / both / mixed, warm-up failure history,
//! 1–8 identical callers (staggered, some cancelling) or 2–8 callers over 2–4 distinct keys;
//! (c) thorough only: multi-thread runtime, real time, 64 callers × 4 keys (clauses ii and v-outcome).
//!
//! Second observation point, "full stack" (d): `NameServerPool<FsRuntime>` over hickory's own
//! connection layer (`impl ConnectionProvider for P: RuntimeProvider`, `NameServer` connection reuse,
//! `UdpClientStream`, `TcpClientStream` + `DnsMultiplexer` + `DnsExchange`, optionally
//! `RetryDnsHandle`) with scripted UDP sockets / TCP streams under the paused clock — `full.rs`
//! (scenarios, sockets, runner) and `fullo.rs` (timing model + oracle, rule ids `fs-*`). It sees what
//! the scripted `ConnectionProvider` cannot: which timeout reaches `connect_tcp` and the
//! multiplexer, `max_active_requests`, TC=1 → TCP over real streams, retries over shared lookups.
//!
//! (e) HISTORIES on the full stack — `hist.rs` (scenarios `"mode":"full-history"`, generator,
//! runner) and `histo.rs` (oracle, alarm minimization): 2–5 sequential lookups on ONE pool, so that
//! `NameServer` pools and re-uses its connections, with scripted peer-side events on the
//! ESTABLISHED connections between / during the lookups (idle FIN / RST noticed or not, failing
//! write, FIN / RST instead of a reply, half a reply, close right after the answer, one-shot UDP
//! send errors). Per lookup: a server scripted to answer on a FRESH connection within the budget
//! (dead pooled connection = failed attempt + one reconnect) ⇒ the lookup returns its answer
//! (`fs-reuse-availability`), by the deadline, and no second request is written to a stream that
//! already told hickory it is dead (`fs-dead-connection-reused`).

mod full;
mod fullo;
mod hist;
mod histo;
mod oracle;
mod scn;
mod sim;
mod stress;

use vh::mon::{self, Ctx, Reporter};

use scn::{Scenario, Strat, BEH_NAMES};

/// histories per quick run (all shards)
const HIST_QUICK: u64 = 48_000;

fn main() {
    let ctx = Ctx::from_args("C18");
    mon::install_panic_monitor();
    let mut rep = Reporter::new(&ctx);

    if let Some(w) = ctx.replay_case() {
        // "mode":"full" = a case of the full-stack observation point (full.rs); anything else is a
        // SimConnProvider scenario
        if w["case"].get("mode").and_then(|m| m.as_str()) == Some("full-history") {
            // a multi-lookup history on one pool (hist.rs / histo.rs)
            match hist::HScn::from_json(&w["case"]) {
                Some(h) => {
                    if ctx.extra.contains_key("dump") {
                        histo::dump(&h);
                    }
                    histo::judge(&mut rep, &h)
                }
                None => {
                    eprintln!("replay file has no usable full-history case");
                    std::process::exit(3);
                }
            }
        } else if w["case"].get("mode").and_then(|m| m.as_str()) == Some("full") {
            match full::FScn::from_json(&w["case"]) {
                Some(s) => {
                    if ctx.extra.contains_key("dump") {
                        // debugging aid: `--replay FILE --dump=1` prints results + socket log
                        fullo::dump(&s);
                    }
                    fullo::judge(&mut rep, &s)
                }
                None => {
                    eprintln!("replay file has no usable full-stack case");
                    std::process::exit(3);
                }
            }
        } else {
            match Scenario::from_json(&w["case"]) {
                Some(s) => oracle::judge(&mut rep, &s),
                None => {
                    eprintln!("replay file has no usable case");
                    std::process::exit(3);
                }
            }
        }
        rep.replay_finish();
    }

    // must-observe (totals over all shards; the quick tier sees ≥ 5× these at seeds 1..5)
    let sc = ctx.scale.min(1.0);
    let m = |x: f64| ((x * sc) as u64).max(1);
    for b in BEH_NAMES {
        for s in Strat::ALL {
            rep.must(&format!("beh_{b}_{}", s.name()), m(2000.0));
        }
    }
    rep.must("sharing_joiners", m(50_000.0));
    rep.must("sharing_count_compared_with_joiners", m(20_000.0));
    rep.must("tc_then_tcp_retry", m(5000.0));
    rep.must("untrusted_nx_skipped", m(5000.0));
    rep.must("avail_applicable", m(50_000.0));
    rep.must("later_query_new_exchange", m(30_000.0));
    rep.must("nx_untrusted_final", m(3000.0));
    if ctx.is_thorough() {
        rep.must("stress_shared_results", m(20_000.0));
    }
    // full-stack part (quick tier observes ≥ 3× these at seeds 1..5)
    for (name, min) in [
        ("fs_scenarios", 15_000.0),
        // behaviour classes, as observed at the socket boundary (silence: as scripted)
        ("fs_obs_udp-deliver-answer", 5000.0),
        ("fs_obs_udp-deliver-tc", 4000.0),
        ("fs_obs_udp-deliver-nx", 1200.0),
        ("fs_obs_udp-send-error", 1000.0),
        ("fs_obs_udp-recv-error", 1000.0),
        ("fs_scripted_udp-silent", 800.0),
        ("fs_udp_retransmissions_seen", 1500.0),
        ("fs_obs_tcp-connect-timeout", 1500.0),
        ("fs_obs_tcp-refused", 1500.0),
        ("fs_scripted_tcp-conn-slower-than-connect_timeout", 500.0),
        ("fs_obs_tcp-deliver-answer", 6000.0),
        ("fs_obs_tcp-deliver-nx", 150.0),
        ("fs_obs_tcp-eof", 400.0),
        ("fs_obs_tcp-reset", 400.0),
        ("fs_scripted_tcp-silent", 1500.0),
        // what the oracle clauses actually got to judge
        ("fs_connect_tcp_calls", 15_000.0),
        ("fs_tcp_answers", 12_000.0),
        ("fs_tc_then_tcp_answer", 4000.0),
        ("fs_slow_tcp_answers", 4000.0),
        ("fs_slow_udp_answers", 1500.0),
        ("fs_connect_hang_then_healthy_answers", 2500.0),
        ("fs_avail_exact_applicable", 8000.0),
        ("fs_avail_exact_via_tc", 2000.0),
        ("fs_avail_exact_slow_tcp", 2500.0),
        ("fs_avail_exact_slow_udp", 500.0),
        ("fs_avail_exact_after_connect_timeout", 1500.0),
        ("fs_avail_sum_applicable", 8000.0),
        ("fs_sharing_compared", 6000.0),
        ("fs_sharing_joiners", 12_000.0),
        ("fs_sharing_joiners_staggered", 1000.0),
        ("fs_busy_cases", 1000.0),
        ("fs_max_active_judged", 1000.0),
        ("fs_busy_diverted_to_other_server", 800.0),
        ("fs_connect_timeout_gt_timeout", 1500.0),
        ("fs_retry_1", 2000.0),
        ("fs_retry_2", 2000.0),
        // history part (hist.rs / histo.rs)
        ("fs_hist_cases", 8000.0),
        ("fs_hist_lookups", 25_000.0),
        ("fs_hist_repeated_name_lookups", 10_000.0),
        ("fs_hist_hits", 12_000.0),
        ("fs_hist_hit_fin-eager", 1800.0),
        ("fs_hist_hit_fin-lazy", 1100.0),
        ("fs_hist_hit_rst-eager", 900.0),
        ("fs_hist_hit_write-fails", 2000.0),
        ("fs_hist_hit_no-reply", 2000.0),
        ("fs_hist_hit_partial", 1500.0),
        ("fs_hist_hit_fin-after-answer", 1800.0),
        ("fs_hist_hit_udp-send-reset", 350.0),
        ("fs_hist_hit_udp-send-other", 350.0),
        ("fs_hist_answered_on_reused_connection", 4000.0),
        ("fs_hist_reconnected_after_dead_connection", 10_000.0),
        ("fs_hist_reconnected_after_fin-eager", 1500.0),
        ("fs_hist_reconnected_after_fin-lazy", 700.0),
        ("fs_hist_reconnected_after_rst-eager", 800.0),
        ("fs_hist_reconnected_after_write-fails", 2000.0),
        ("fs_hist_reconnected_after_no-reply", 2000.0),
        ("fs_hist_reconnected_after_partial", 1500.0),
        ("fs_hist_reconnected_after_fin-after-answer", 1200.0),
        ("fs_hist_avail_applicable", 20_000.0),
        ("fs_hist_avail_exact", 8000.0),
        ("fs_hist_avail_sum", 12_000.0),
        ("fs_hist_avail_later_lookup", 15_000.0),
        ("fs_hist_avail_with_dead_pooled_connection", 11_000.0),
        ("fs_hist_avail_death_surfaces_in_lookup", 5000.0),
        ("fs_hist_avail_exact_dead_pooled_then_trap_server", 1500.0),
    ] {
        rep.must(name, m(min));
    }

    // ---- (a) enumerated part: all ordered tuples of server profiles
    let plans: &[(usize, &[usize], &[u64])] = if ctx.is_thorough() {
        &[(1, &[1, 2], &[1000, 5000]), (2, &[1, 2, 4], &[1000, 5000]), (3, &[1, 2, 4], &[1000, 5000]), (4, &[1, 2], &[5000])]
    } else {
        &[(1, &[1, 2], &[1000, 5000]), (2, &[1, 2], &[1000, 5000]), (3, &[1, 2], &[5000])]
    };
    let mut gi = 0u64;
    for (n, concs, timeouts) in plans {
        for i in 0..scn::enum_count(*n, concs, timeouts) {
            gi += 1;
            if ctx.mine(gi) {
                let s = scn::enum_scenario(i, *n, concs, timeouts);
                rep.count("enumerated");
                oracle::judge(&mut rep, &s);
            }
        }
    }

    // ---- (b) seeded random scenarios
    let mut rng = ctx.rng("scenarios");
    let n = ctx.budget(300_000, 30_000_000);
    for _ in 0..n {
        let s = scn::gen_scenario(&mut rng);
        oracle::judge(&mut rep, &s);
    }

    // ---- (d) full stack: the real connection layer over scripted sockets (full.rs / fullo.rs)
    {
        let mut frng = ctx.rng("full-stack");
        let n = ctx.budget(48_000, 6_000_000);
        for _ in 0..n {
            let s = full::gen_full(&mut frng);
            fullo::judge(&mut rep, &s);
        }
    }

    // ---- (e) full stack, histories: sequential lookups on one pool, pooled connections killed
    // between / during lookups (hist.rs / histo.rs)
    {
        let mut hrng = ctx.rng("full-history");
        let n = ctx.budget(HIST_QUICK, 3_000_000);
        for _ in 0..n {
            let h = hist::gen_hist(&mut hrng);
            histo::judge(&mut rep, &h);
        }
    }

    // ---- (c) threaded stress, thorough only
    {
        let rounds = ctx.budget(64, 1600);
        let mut srng = ctx.rng("stress");
        for _ in 0..rounds {
            stress::round(&mut rep, &mut srng);
        }
    }

    std::process::exit(rep.finish().min(0));
}
