//! C13 part G3 — the CLIENT-SIDE integration of TSIG: `DnsMultiplexer` (stream transports) and
//! `UdpClientStream` built WITH a `TSigner`. They sign each outgoing request themselves
//! (`Message::finalize`) and run the returned `TSigVerifier` on what comes back before the request
//! completes. Here both are driven by hand (noop waker, inside the world's runtime context, frozen
//! virtual clock) over a scripted connection / scripted UDP sockets; the scripted peer is the real
//! server path (`Catalog` + `SqliteZoneHandler`) answering the very bytes the client wrote.
//!
//! Oracle = `reftsig` on the delivered bytes relative to the request actually sent (request MAC
//! read from the bytes the client wrote, client signing time, the client's key):
//!  * `client-accepted-forged:<what>:<transport>` — a request completed `Ok` with a message the
//!    reference rejects for that request (bit-flipped genuine reply, reply with the TSIG stripped,
//!    signed with another secret / another key name, answering a DIFFERENT in-flight request's MAC
//!    (header id re-addressed), signed without the request MAC, signed at a time outside the
//!    window, BADSIG-style empty MAC), or with bytes that were never delivered;
//!  * `client-rejected-genuine:<transport>` — the genuine reply (valid per the reference) to a
//!    request nothing else was routed to did not complete it `Ok` with exactly those bytes.
//! Don't-cares: an accepted message that hickory's decoder maps to the same `Message` as the
//! genuine reply of that request (reserved header bit: the digest is computed over the re-encoded
//! header) — counted; a reference-valid message that is not accepted (only the genuine reply is
//! demanded); what a request yields after its first item; ids / ports (C16). When the server's
//! own reply is not valid per the reference (a server-side defect, judged by the reply clause) the
//! reference re-signs its body so that this part keeps judging the client wiring only.
#![allow(dead_code)]

use std::collections::{BTreeMap, VecDeque};
use std::future::Future;
use std::io;
use std::net::SocketAddr;
use std::pin::Pin;
use std::sync::{Arc, Mutex};
use std::task::{Context, Poll, Waker};
use std::time::Duration;

use futures::stream::{Stream, StreamExt};
use hickory_net::runtime::{DnsTcpStream, DnsUdpSocket, RuntimeProvider, TokioHandle};
use hickory_net::udp::UdpClientStream;
use hickory_net::xfer::{DnsClientStream, DnsRequestSender, DnsResponseStream, StreamReceiver};
use hickory_net::{BufDnsStreamHandle, DnsMultiplexer, NetError};
use hickory_proto::op::{DnsRequest, DnsRequestOptions, Message, SerialMessage};
use serde_json::{json, Value};

use vh::mon::{self, hex};

use super::reftsig::{self, Key, Verdict};
use super::zonekit::{lbl, send, set_clock, VTime};
use super::{same_parse, signer_of, World, FUDGE};

pub fn server_addr() -> SocketAddr {
    "192.0.2.53:53".parse().unwrap()
}

// ---------------------------------------------------------------------------------------------
// scripted connection for the multiplexer

struct ConnState {
    rx: StreamReceiver,
    outbound: Vec<Vec<u8>>,
    inbound: VecDeque<Vec<u8>>,
    waker: Option<Waker>,
}

impl ConnState {
    fn drain_outbound(&mut self) {
        let w = futures::task::noop_waker();
        let mut cx = Context::from_waker(&w);
        while let Poll::Ready(Some(m)) = self.rx.poll_next_unpin(&mut cx) {
            self.outbound.push(m.into_parts().0);
        }
    }
}

struct ScriptedStream(Arc<Mutex<ConnState>>);

impl Stream for ScriptedStream {
    type Item = Result<SerialMessage, NetError>;
    fn poll_next(self: Pin<&mut Self>, cx: &mut Context<'_>) -> Poll<Option<Self::Item>> {
        let mut s = self.0.lock().unwrap();
        s.drain_outbound();
        match s.inbound.pop_front() {
            Some(b) => Poll::Ready(Some(Ok(SerialMessage::new(b, server_addr())))),
            None => {
                s.waker = Some(cx.waker().clone());
                Poll::Pending
            }
        }
    }
}

impl DnsClientStream for ScriptedStream {
    /// the clock the server world runs on: client signing time == `zonekit::clock()`
    type Time = VTime;
    fn name_server_addr(&self) -> SocketAddr {
        server_addr()
    }
}

// ---------------------------------------------------------------------------------------------
// scripted UDP sockets

#[derive(Default)]
struct SockState {
    sent: Vec<(Vec<u8>, SocketAddr)>,
    inbox: VecDeque<(Vec<u8>, SocketAddr)>,
    waker: Option<Waker>,
}

#[derive(Clone, Default)]
struct UdpNet(Arc<Mutex<Vec<SockState>>>);

struct ScriptedUdp {
    net: UdpNet,
    index: usize,
}

#[async_trait::async_trait]
impl DnsUdpSocket for ScriptedUdp {
    type Time = VTime;
    fn poll_recv_from(&self, cx: &mut Context<'_>, buf: &mut [u8]) -> Poll<io::Result<(usize, SocketAddr)>> {
        let mut n = self.net.0.lock().unwrap();
        let s = &mut n[self.index];
        match s.inbox.pop_front() {
            Some((b, src)) => {
                // a datagram larger than the buffer is cut, as recvfrom does
                let k = b.len().min(buf.len());
                buf[..k].copy_from_slice(&b[..k]);
                Poll::Ready(Ok((k, src)))
            }
            None => {
                s.waker = Some(cx.waker().clone());
                Poll::Pending
            }
        }
    }
    fn poll_send_to(&self, _cx: &mut Context<'_>, buf: &[u8], target: SocketAddr) -> Poll<io::Result<usize>> {
        self.net.0.lock().unwrap()[self.index].sent.push((buf.to_vec(), target));
        Poll::Ready(Ok(buf.len()))
    }
}

pub struct NoTcp;

impl futures::io::AsyncRead for NoTcp {
    fn poll_read(self: Pin<&mut Self>, _: &mut Context<'_>, _: &mut [u8]) -> Poll<io::Result<usize>> {
        Poll::Ready(Err(io::Error::other("no tcp")))
    }
}
impl futures::io::AsyncWrite for NoTcp {
    fn poll_write(self: Pin<&mut Self>, _: &mut Context<'_>, _: &[u8]) -> Poll<io::Result<usize>> {
        Poll::Ready(Err(io::Error::other("no tcp")))
    }
    fn poll_flush(self: Pin<&mut Self>, _: &mut Context<'_>) -> Poll<io::Result<()>> {
        Poll::Ready(Ok(()))
    }
    fn poll_close(self: Pin<&mut Self>, _: &mut Context<'_>) -> Poll<io::Result<()>> {
        Poll::Ready(Ok(()))
    }
}
impl DnsTcpStream for NoTcp {
    type Time = VTime;
}

#[derive(Clone)]
struct ClientRt {
    handle: TokioHandle,
    net: UdpNet,
}

impl RuntimeProvider for ClientRt {
    type Handle = TokioHandle;
    type Timer = VTime;
    type Udp = ScriptedUdp;
    type Tcp = NoTcp;

    fn create_handle(&self) -> TokioHandle {
        self.handle.clone()
    }
    fn connect_tcp(&self, _: SocketAddr, _: Option<SocketAddr>, _: Option<Duration>) -> Pin<Box<dyn Send + Future<Output = Result<NoTcp, io::Error>>>> {
        Box::pin(async { Err(io::Error::other("no tcp in this scenario")) })
    }
    fn bind_udp(&self, _local: SocketAddr, _server: SocketAddr) -> Pin<Box<dyn Send + Future<Output = Result<ScriptedUdp, io::Error>>>> {
        let net = self.net.clone();
        Box::pin(async move {
            let index = {
                let mut n = net.0.lock().unwrap();
                n.push(SockState::default());
                n.len() - 1
            };
            Ok(ScriptedUdp { net, index })
        })
    }
}

// ---------------------------------------------------------------------------------------------
// forgeries

/// what is delivered to the slots, in order; `flip` entries take their bit index from the case
pub const KINDS: [&str; 13] = ["genuine", "flip", "flip", "flip", "flip", "unsigned", "other-secret", "other-key-name", "other-request-mac", "no-request-mac", "stale-time", "empty-mac", "spare"];

pub struct Viol {
    pub rule: String,
    pub sig: String,
    pub expected: Value,
    pub observed: Value,
    /// for the witness: what was delivered and to which request
    pub detail: Value,
}

#[derive(Default)]
pub struct Run {
    pub viols: Vec<Viol>,
    pub counts: BTreeMap<String, u64>,
    pub evals: u64,
    pub panic: Option<mon::PanicRecord>,
}

impl Run {
    fn count(&mut self, k: &str) {
        *self.counts.entry(k.to_string()).or_insert(0) += 1;
    }
}

/// one request the client wrote
struct Sent {
    bytes: Vec<u8>,
    mac: Vec<u8>,
    time: u64,
    id: u16,
    /// reply of the peer, valid per the reference for this request
    genuine: Vec<u8>,
}

#[derive(Clone)]
struct Delivered {
    what: String,
    bytes: Vec<u8>,
    /// slot the message was built for
    slot: usize,
}

fn ref_verdict(reply: &[u8], key: &Key, s: &Sent) -> Verdict {
    match reftsig::locate(reply) {
        Ok(t) => reftsig::judge_located(reply, &t, &[key.clone()], s.time, Some(&s.mac)),
        Err(e) => Verdict::Invalid(e),
    }
}

/// the peer: the real server path on the bytes the client wrote; falls back to the reference
/// signer when the server's reply is not valid per the reference
fn peer_reply(w: &mut World, key: &Key, req: &[u8], now: u64, run: &mut Run) -> Option<Sent> {
    let t = reftsig::locate(req).ok()?;
    let id = u16::from_be_bytes([req[0], req[1]]);
    set_clock(now);
    let reply = match send(&w.rt, &w.cat, req) {
        Ok(v) => v.into_iter().next()?,
        Err(_) => return None,
    };
    let mut s = Sent { bytes: req.to_vec(), mac: t.mac.clone(), time: t.time, id, genuine: reply.clone() };
    if !matches!(ref_verdict(&reply, key, &s), Verdict::Valid | Verdict::Boundary) {
        let body = match reftsig::locate(&reply) {
            Ok(rt) => reftsig::strip(&reply, &rt),
            Err(_) => reply.clone(),
        };
        s.genuine = reftsig::sign_with(&body, key, now, FUDGE as u16, Some(&s.mac), 0, &[]);
        run.count("client/peer-reply-resigned-by-reference");
        if !matches!(ref_verdict(&s.genuine, key, &s), Verdict::Valid | Verdict::Boundary) {
            return None;
        }
    }
    Some(s)
}

fn forge(kind: &str, slot: usize, sent: &[Sent], key: &Key, bit: u32) -> Option<Delivered> {
    let s = &sent[slot];
    let g = &s.genuine;
    let t = reftsig::locate(g).ok()?;
    let body = reftsig::strip(g, &t);
    let fudge = FUDGE as u16;
    let (what, bytes) = match kind {
        "genuine" => ("genuine".to_string(), g.clone()),
        "flip" => {
            let b = (bit as usize) % (g.len() * 8);
            let mut m = g.clone();
            m[b / 8] ^= 1 << (b % 8);
            let regs = reftsig::regions(g);
            (format!("byte-edit@{}", reftsig::region_of(&regs, b / 8)), m)
        }
        "unsigned" => ("unsigned".to_string(), body),
        "other-secret" => {
            let mut k = key.clone();
            k.secret = b"another-secret-another-secret-xx".to_vec();
            ("other-secret".to_string(), reftsig::sign_with(&body, &k, t.time, fudge, Some(&s.mac), 0, &[]))
        }
        "other-key-name" => {
            let mut k = key.clone();
            k.name = lbl("stranger.");
            ("other-key-name".to_string(), reftsig::sign_with(&body, &k, t.time, fudge, Some(&s.mac), 0, &[]))
        }
        "other-request-mac" => {
            // the genuine reply to ANOTHER in-flight request, re-addressed to this one (the header
            // id is not covered by the MAC: the TSIG original-id field is)
            let other = &sent[(slot + 1) % sent.len()];
            if other.mac == s.mac {
                return None;
            }
            let mut m = other.genuine.clone();
            m[0..2].copy_from_slice(&s.id.to_be_bytes());
            ("other-request-mac".to_string(), m)
        }
        "no-request-mac" => ("no-request-mac".to_string(), reftsig::sign_with(&body, key, t.time, fudge, None, 0, &[])),
        "stale-time" => ("stale-time".to_string(), reftsig::sign_with(&body, key, t.time + 3600, fudge, Some(&s.mac), 0, &[])),
        "empty-mac" => ("empty-mac".to_string(), reftsig::append_tsig(&body, &t.name, &t.alg_name, t.time, fudge, &[], t.orig_id, 16, &[])),
        _ => return None,
    };
    Some(Delivered { what, bytes, slot })
}

enum Item {
    Ok(Vec<u8>),
    Err(String),
}

/// judge everything request `j` yielded
fn judge_items(run: &mut Run, transport: &str, j: usize, items: &[Item], sent: &[Sent], delivered: &[Delivered], key: &Key) {
    for it in items {
        run.evals += 1;
        let Item::Ok(bytes) = it else { continue };
        let s = &sent[j];
        match delivered.iter().find(|d| d.bytes == *bytes) {
            None => run.viols.push(Viol {
                rule: "client".into(),
                sig: format!("client-accepted-forged:bytes-never-delivered:{transport}"),
                expected: json!("a completed request carries a delivered message"),
                observed: json!({"response": hex(bytes)}),
                detail: json!({"request": hex(&s.bytes)}),
            }),
            Some(d) => {
                let v = ref_verdict(&d.bytes, key, s);
                if matches!(v, Verdict::Valid | Verdict::Boundary) {
                    run.count(&format!("client/{transport}/accepted-valid"));
                } else if same_parse(&d.bytes, &s.genuine) {
                    run.count(&format!("client/{transport}/dontcare-same-parse/{}", d.what));
                } else {
                    run.viols.push(Viol {
                        rule: "client".into(),
                        sig: format!("client-accepted-forged:{}:{transport}", d.what),
                        expected: json!({"reftsig": format!("{v:?}"), "request": "does not complete Ok with this message"}),
                        observed: json!("Ok(response) with exactly these bytes"),
                        detail: json!({"what": d.what, "delivered": hex(&d.bytes), "built_for_slot": d.slot, "accepted_by_slot": j, "request": hex(&s.bytes), "genuine_reply": hex(&s.genuine)}),
                    });
                }
            }
        }
    }
}

fn demand_genuine(run: &mut Run, transport: &str, j: usize, items: &[Item], sent: &[Sent], note: &str) {
    let s = &sent[j];
    run.evals += 1;
    match items.first() {
        Some(Item::Ok(b)) if *b == s.genuine => run.count(&format!("client/{transport}/genuine-completed")),
        other => run.viols.push(Viol {
            rule: "client".into(),
            sig: format!("client-rejected-genuine:{transport}"),
            expected: json!("Ok(response) carrying the genuine reply"),
            observed: match other {
                None => json!("still pending"),
                Some(Item::Err(e)) => json!({"error": e}),
                Some(Item::Ok(b)) => json!({"other_bytes": hex(b)}),
            },
            detail: json!({"situation": note, "request": hex(&s.bytes), "genuine_reply": hex(&s.genuine)}),
        }),
    }
}

fn drain(stream: &mut DnsResponseStream, cx: &mut Context<'_>, items: &mut Vec<Item>, ended: &mut bool) {
    for _ in 0..4 {
        if *ended {
            return;
        }
        match stream.poll_next_unpin(cx) {
            Poll::Ready(Some(Ok(r))) => items.push(Item::Ok(r.as_buffer().to_vec())),
            Poll::Ready(Some(Err(e))) => items.push(Item::Err(e.to_string())),
            Poll::Ready(None) => *ended = true,
            Poll::Pending => return,
        }
    }
}

fn request_of(unsigned: &[u8], id: u16) -> Option<DnsRequest> {
    let mut m = Message::from_vec(unsigned).ok()?;
    m.metadata.id = id;
    Some(DnsRequest::new(m, DnsRequestOptions::default()))
}

// ---------------------------------------------------------------------------------------------
// multiplexer: all requests in flight at once

pub fn run_mux(w: &mut World, unsigned: &[u8], key_idx: usize, time: u64, bits: &[u32]) -> Run {
    let mut run = Run::default();
    let key = w.env.keys[key_idx].clone();
    let t = "mux";
    set_clock(time);
    let rt_handle = w.rt.handle().clone();
    let _g = rt_handle.enter();
    let waker = futures::task::noop_waker();
    let mut cx = Context::from_waker(&waker);

    let (handle, rx) = BufDnsStreamHandle::new(server_addr());
    let conn = Arc::new(Mutex::new(ConnState { rx, outbound: Vec::new(), inbound: VecDeque::new(), waker: None }));
    let mut mux = DnsMultiplexer::new(ScriptedStream(conn.clone()), handle).with_timeout(Duration::from_secs(86_400)).with_max_active_requests(64).with_signer(signer_of(&key));

    // 1. every request goes out first: all of them are in flight together
    let n = KINDS.len();
    let mut streams: Vec<DnsResponseStream> = Vec::new();
    for i in 0..n {
        let Some(req) = request_of(unsigned, 1 + i as u16) else { return run };
        match mon::catch(|| mux.send_message(req)) {
            Ok(s) => streams.push(s),
            Err(p) => {
                run.panic = Some(p);
                return run;
            }
        }
    }
    let out: Vec<Vec<u8>> = {
        let mut c = conn.lock().unwrap();
        c.drain_outbound();
        c.outbound.clone()
    };
    if out.len() != n {
        run.count("client/mux/not-all-requests-written");
        return run;
    }
    // 2. the peer answers each of them
    let mut sent = Vec::new();
    for req in &out {
        match peer_reply(w, &key, req, time, &mut run) {
            Some(s) => sent.push(s),
            None => {
                run.count("client/mux/peer-gave-no-usable-reply");
                return run;
            }
        }
    }
    run.count("client/mux/scenarios");
    // 3. one delivery per slot, everything polled after each
    let mut items: Vec<Vec<Item>> = (0..n).map(|_| Vec::new()).collect();
    let mut ended = vec![false; n];
    let mut delivered: Vec<Delivered> = Vec::new();
    let mut routed_to: Vec<usize> = vec![0; n];
    let mut flip_no = 0;
    for (i, kind) in KINDS.iter().enumerate() {
        let bit = if *kind == "flip" {
            flip_no += 1;
            bits.get(flip_no - 1).copied().unwrap_or(97 * flip_no as u32)
        } else {
            0
        };
        let Some(d) = forge(kind, i, &sent, &key, bit) else { continue };
        run.count(&format!("client/mux/delivered/{}", d.what.split('@').next().unwrap_or("")));
        // which request will the multiplexer route it to (by header id)
        if d.bytes.len() >= 2 {
            let id = u16::from_be_bytes([d.bytes[0], d.bytes[1]]);
            if let Some(j) = sent.iter().position(|s| s.id == id) {
                routed_to[j] += 1;
            }
        }
        delivered.push(d.clone());
        {
            let mut c = conn.lock().unwrap();
            c.inbound.push_back(d.bytes.clone());
            if let Some(wk) = c.waker.take() {
                wk.wake();
            }
        }
        let polled = mon::catch(|| {
            let _ = mux.poll_next_unpin(&mut cx);
            for j in 0..n {
                drain(&mut streams[j], &mut cx, &mut items[j], &mut ended[j]);
            }
        });
        if let Err(p) = polled {
            run.panic = Some(p);
            return run;
        }
        if *kind == "genuine" {
            demand_genuine(&mut run, t, i, &items[i], &sent, "first delivery, all requests in flight");
        }
    }
    // 4. requests nothing was routed to get their genuine reply now (after forgeries went elsewhere)
    for j in 0..n {
        if routed_to[j] == 0 && items[j].is_empty() {
            delivered.push(Delivered { what: "genuine".into(), bytes: sent[j].genuine.clone(), slot: j });
            {
                let mut c = conn.lock().unwrap();
                c.inbound.push_back(sent[j].genuine.clone());
            }
            let polled = mon::catch(|| {
                let _ = mux.poll_next_unpin(&mut cx);
                drain(&mut streams[j], &mut cx, &mut items[j], &mut ended[j]);
            });
            if let Err(p) = polled {
                run.panic = Some(p);
                return run;
            }
            demand_genuine(&mut run, t, j, &items[j], &sent, "after forged replies to other requests");
        }
    }
    for j in 0..n {
        judge_items(&mut run, t, j, &items[j], &sent, &delivered, &key);
        match items[j].first() {
            None => run.count("client/mux/outcome/pending"),
            Some(Item::Ok(_)) => run.count("client/mux/outcome/ok"),
            Some(Item::Err(_)) => run.count("client/mux/outcome/err"),
        }
    }
    drop(streams);
    drop(mux);
    run
}

// ---------------------------------------------------------------------------------------------
// UDP: one request (own socket, own signature) per delivery

pub fn run_udp(w: &mut World, unsigned: &[u8], key_idx: usize, time: u64, bits: &[u32]) -> Run {
    let mut run = Run::default();
    let key = w.env.keys[key_idx].clone();
    let t = "udp";
    set_clock(time);
    let rt_handle = w.rt.handle().clone();
    let _g = rt_handle.enter();
    let waker = futures::task::noop_waker();
    let mut cx = Context::from_waker(&waker);

    let net = UdpNet::default();
    let provider = ClientRt { handle: TokioHandle::default(), net: net.clone() };
    let mut stream = UdpClientStream::builder(server_addr(), provider).with_signer(Some(signer_of(&key))).with_timeout(Some(Duration::from_secs(86_400))).with_max_retries(0).build();

    // 1. one send per slot; the first poll binds a socket, signs and writes the request
    let n = KINDS.len();
    let mut streams: Vec<DnsResponseStream> = Vec::new();
    let mut items: Vec<Vec<Item>> = (0..n).map(|_| Vec::new()).collect();
    let mut ended = vec![false; n];
    for i in 0..n {
        // distinct ids: each request gets its own MAC
        let Some(req) = request_of(unsigned, 0x1000 + 7 * i as u16) else { return run };
        let r = mon::catch(|| {
            let mut s = stream.send_message(req);
            drain(&mut s, &mut cx, &mut items[i], &mut ended[i]);
            s
        });
        match r {
            Ok(s) => streams.push(s),
            Err(p) => {
                run.panic = Some(p);
                return run;
            }
        }
    }
    let out: Vec<Option<Vec<u8>>> = {
        let n2 = net.0.lock().unwrap();
        (0..n).map(|i| n2.get(i).and_then(|s| s.sent.first().map(|x| x.0.clone()))).collect()
    };
    if out.iter().any(|o| o.is_none()) || items.iter().any(|x| !x.is_empty()) {
        run.count("client/udp/not-all-requests-written");
        return run;
    }
    let mut sent = Vec::new();
    for req in out.iter().flatten() {
        match peer_reply(w, &key, req, time, &mut run) {
            Some(s) => sent.push(s),
            None => {
                run.count("client/udp/peer-gave-no-usable-reply");
                return run;
            }
        }
    }
    // receive buffer of the client: min(4096, advertised payload) — a longer reply cannot arrive whole
    let limit = match super::basegen::Spec::parse(unsigned).ok().and_then(|s| s.opt) {
        Some(o) => (o.payload as usize).clamp(512, 4096),
        None => 512,
    };
    if sent.iter().any(|s| s.genuine.len() > limit) {
        run.count("client/udp/skipped-reply-exceeds-receive-buffer");
        return run;
    }
    run.count("client/udp/scenarios");
    let mut delivered: Vec<Delivered> = Vec::new();
    let mut flip_no = 0;
    for (i, kind) in KINDS.iter().enumerate() {
        let bit = if *kind == "flip" {
            flip_no += 1;
            bits.get(flip_no - 1).copied().unwrap_or(97 * flip_no as u32)
        } else {
            0
        };
        let d = match forge(kind, i, &sent, &key, bit) {
            Some(d) => d,
            // spare slot: the genuine reply, after all the others were refused
            None if *kind == "spare" => Delivered { what: "genuine".into(), bytes: sent[i].genuine.clone(), slot: i },
            None => continue,
        };
        run.count(&format!("client/udp/delivered/{}", d.what.split('@').next().unwrap_or("")));
        delivered.push(d.clone());
        {
            let mut n2 = net.0.lock().unwrap();
            n2[i].inbox.push_back((d.bytes.clone(), server_addr()));
            if let Some(wk) = n2[i].waker.take() {
                wk.wake();
            }
        }
        if let Err(p) = mon::catch(|| drain(&mut streams[i], &mut cx, &mut items[i], &mut ended[i])) {
            run.panic = Some(p);
            return run;
        }
        if d.what == "genuine" {
            demand_genuine(&mut run, t, i, &items[i], &sent, if i == 0 { "first request" } else { "after forged replies to earlier requests" });
        }
    }
    for j in 0..n {
        judge_items(&mut run, t, j, &items[j], &sent, &delivered, &key);
        match items[j].first() {
            None => run.count("client/udp/outcome/pending"),
            Some(Item::Ok(_)) => run.count("client/udp/outcome/ok"),
            Some(Item::Err(_)) => run.count("client/udp/outcome/err"),
        }
    }
    drop(streams);
    run
}
