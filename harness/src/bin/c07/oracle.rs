//! The oracle: authenticity against ground truth.
//!
//! What is judged is what `DnssecDnsHandle::send` yields — the `DnsResponse`, or the response
//! inside the `DnsError::Nsec` payload — mapped back, by position, onto the records the harness
//! itself presented for the top-level exchange (so RDATA bytes are the harness' own, never
//! re-encoded by hickory).
//!
//! Rules (rule id → clause of the property statement):
//!  * `secure-not-genuine` (i): a record marked Secure is not a genuine RR of a truly secure zone.
//!  * `secure-rrset-incomplete` (i): the Secure members of an RRset are a strict subset of the genuine
//!    RRset (a member was removed and the rest still passed).
//!  * `false-denial` (ii): Ok outcome, no usable answer for the (CNAME-chased) query name, Secure
//!    NSEC/NSEC3 in authority — but the data exists in the ground-truth zone (or NXDOMAIN for a name
//!    that exists).
//!  * `insecure-in-signed-zone` (iii): Ok outcome carrying a record marked Insecure/Indeterminate
//!    whose zone is not truly insecure ("never silently Insecure").
//!  * `unauthenticated-denial` (iii/iv): Ok outcome (or an Nsec error with an *Insecure* proof, which
//!    consumers pass on) without any usable answer for a name whose zone is truly signed, without a
//!    Secure denial and without any Bogus mark: the removal/replacement of the answer went unnoticed.
//!  * `secure-despite-broken-link` (iv): fresh validator, a record is Secure although in this run no
//!    exchange presented, complete and with a genuine RRSIG, one of the RRsets on its chain (DNSKEY
//!    and DS of every zone from the root down, and the RRset's own RRSIG).
//!  * `honest-rejected`: honest upstream, non-bogus hierarchy, yet error / Bogus (completeness symptom;
//!    main.rs counts it as information and never reports it: not part of C07's statement).
//!  * `validator-panic`: the validator panicked.
//!
//! Don't-cares (never alarm): anything that ends in `Err` (other than Nsec{Insecure}) or in Ok with a
//! Bogus mark in answer/authority; proofs of RRSIG records themselves (judged through the RRset they
//! cover); TTLs (C06); a DNSKEY RRset consisting only of the configured trust-anchor key(s) being
//! Secure without RRSIG; additional-section content that is marked Bogus; duplicate records; letter
//! case of names embedded in RDATA; non-canonical NSEC/NSEC3 type-bitmap encodings of the same type
//! set (hickory compares type sets, keeps the original bytes for the signature check); a negative
//! conclusion reached through a CNAME link of a truly insecure zone (that link is forgeable anyway);
//! a negative conclusion behind a forged link already reported under (i); a stricter validator
//! (Bogus where Secure/Insecure was possible); in the anchored-island worlds (`isl.rs`) an
//! Insecure/Indeterminate mark on a record whose owner lies outside the anchored zone (no trust anchor
//! at or above it: RFC 4035 section 4.3 Indeterminate).
#![allow(dead_code)]

use std::collections::BTreeSet;

use hickory_proto::dnssec::Proof;
use serde_json::{json, Value};

use crate::chain;
use crate::fault::rrsig_signer;
use crate::hier::{canon, Status, Truth};
use crate::refzone::{self, fold, ref_auth, show, ty, Kind, Name};
use crate::upstream::Exchange;
use crate::world::{Rec, Resp, World, SEC_AN, SEC_NS};

#[derive(Clone, Debug)]
pub enum OutKind {
    Ok,
    ErrNsec(Proof),
    Err(String),
    Panic(String),
}

#[derive(Clone, Debug)]
pub struct Observed {
    pub kind: OutKind,
    pub rcode: u16,
    pub recs: Vec<(Rec, Proof)>,
    /// RDATA as hickory parsed and re-encoded it, where that differs from the presented bytes
    /// (lenient decoding of an altered record can yield the genuine record again: membership is
    /// then judged on what the validator actually held)
    pub alts: Vec<Option<Vec<u8>>>,
    /// records could not be mapped by position onto the presented response (RDATA re-encoded by hickory)
    pub remapped: bool,
}

impl Observed {
    pub fn to_json(&self) -> Value {
        json!({
            "outcome": match &self.kind { OutKind::Ok => "ok".to_string(), OutKind::ErrNsec(p) => format!("err-nsec-{p}"), OutKind::Err(e) => format!("err: {e}"), OutKind::Panic(p) => format!("panic: {p}") },
            "rcode": self.rcode,
            "records": self.recs.iter().map(|(r, p)| json!([(["an", "ns", "ar"][r.sec.min(2) as usize]), show(&r.owner), refzone::type_name(r.rtype), vh::mon::hex(&r.rdata[..r.rdata.len().min(40)]), p.to_string()])).collect::<Vec<_>>(),
        })
    }
    pub fn is_passed_on(&self) -> bool {
        matches!(self.kind, OutKind::Ok | OutKind::ErrNsec(Proof::Insecure))
    }
}

pub struct Alarm {
    pub rule: &'static str,
    pub detail: String,
    pub expected: Value,
    pub observed: Value,
}

pub struct Case<'a> {
    pub truth: &'a Truth,
    pub world: &'a World,
    pub qname: &'a Name,
    pub qtype: u16,
    pub obs: &'a Observed,
    pub log: &'a [Exchange],
    /// fresh validator and a single step: the provenance rule (iv) applies
    pub fresh: bool,
    /// no fault in this step and none before it on this validator
    pub honest: bool,
}

/// coarse record class used in signatures
pub fn tclass(t: u16) -> &'static str {
    match t {
        ty::DNSKEY => "dnskey",
        ty::DS => "ds",
        chain::T_NSEC | chain::T_NSEC3 => "denial",
        _ => "data",
    }
}

fn is_anchor_key(truth: &Truth, rd: &[u8]) -> bool {
    rd.len() > 4 && rd[3] == truth.anchor.0 && rd[4..] == truth.anchor.1[..]
}

/// an RRset (any section) of a presented response that equals the genuine one and carries a genuine RRSIG
fn validly_presented(c: &Case<'_>, resp: &Resp, owner: &Name, t: u16, genuine: &BTreeSet<Vec<u8>>) -> bool {
    for sec in 0..3u8 {
        let set: BTreeSet<Vec<u8>> = resp.recs.iter().filter(|r| r.sec == sec && r.rtype == t && r.class == 1 && fold(&r.owner) == *owner).map(|r| canon(t, &r.rdata)).collect();
        if set.is_empty() {
            continue;
        }
        if t == ty::DNSKEY && owner == c.truth.anchor_apex() && set.iter().all(|rd| is_anchor_key(c.truth, rd)) {
            return true; // trust anchors need no signature
        }
        if set != *genuine {
            continue;
        }
        if resp.recs.iter().any(|r| r.sec == sec && r.rtype == ty::RRSIG && r.covered() == Some(t) && fold(&r.owner) == *owner && c.world.is_genuine_sig(owner, &r.rdata)) {
            return true;
        }
    }
    false
}

fn link_presented(c: &Case<'_>, owner: &Name, t: u16) -> bool {
    let gen = c.truth.genuine(owner, t);
    let Some((_, set)) = gen.first() else { return false };
    c.log.iter().filter(|e| e.decodable).any(|e| validly_presented(c, &e.presented, owner, t, set))
}

pub fn judge(c: &Case<'_>) -> Vec<Alarm> {
    let mut alarms: Vec<Alarm> = Vec::new();
    let t = c.truth;
    let obs = c.obs;
    if let OutKind::Panic(p) = &obs.kind {
        alarms.push(Alarm { rule: "validator-panic", detail: p.clone(), expected: json!("no panic"), observed: obs.to_json() });
        return alarms;
    }
    let show_rec = |r: &Rec| json!({"section": r.sec, "owner": show(&r.owner), "type": refzone::type_name(r.rtype), "rdata": vh::mon::hex(&r.rdata)});

    // ---- (i) Secure records are genuine records of truly secure zones -------------------------
    let mut secure_groups: Vec<(u8, Name, u16)> = Vec::new();
    // the form of each record that is judged: the presented bytes, unless only hickory's parsed form is genuine
    let judged_rdata = |i: usize| -> Vec<u8> {
        let (r, _) = &obs.recs[i];
        let raw = canon(r.rtype, &r.rdata);
        if let Some(Some(alt)) = obs.alts.get(i) {
            let cands = t.genuine(&r.owner, r.rtype);
            let a = canon(r.rtype, alt);
            if !cands.iter().any(|(_, set)| set.contains(&raw)) && cands.iter().any(|(_, set)| set.contains(&a)) {
                return a;
            }
        }
        raw
    };
    for (i, (r, p)) in obs.recs.iter().enumerate() {
        if *p != Proof::Secure || r.rtype == ty::RRSIG {
            continue;
        }
        let cands = t.genuine(&r.owner, r.rtype);
        let rd = judged_rdata(i);
        let member: Vec<&(usize, BTreeSet<Vec<u8>>)> = cands.iter().filter(|(_, set)| set.contains(&rd)).collect();
        let ok = r.class == 1 && member.iter().any(|(zi, _)| t.zones[*zi].status == Status::Secure);
        if !ok {
            let why = if r.class != 1 {
                "class"
            } else if member.is_empty() {
                "not-in-zone-data"
            } else {
                match t.zones[member[0].0].status {
                    Status::Insecure => "zone-truly-insecure",
                    Status::Bogus => "zone-truly-bogus",
                    Status::Secure => "?",
                }
            };
            alarms.push(Alarm {
                rule: "secure-not-genuine",
                detail: format!("{}:{}", tclass(r.rtype), why),
                expected: json!("not Secure: the record is not a genuine record of a zone with an unbroken DS/DNSKEY chain from the trust anchor"),
                observed: show_rec(r),
            });
            continue;
        }
        let g = (r.sec, fold(&r.owner), r.rtype);
        if !secure_groups.contains(&g) {
            secure_groups.push(g);
        }
    }
    for (sec, owner, rt) in &secure_groups {
        let set: BTreeSet<Vec<u8>> = obs.recs.iter().enumerate().filter(|(_, (r, p))| *p == Proof::Secure && r.sec == *sec && r.rtype == *rt && fold(&r.owner) == *owner).map(|(i, _)| judged_rdata(i)).collect();
        let cands = t.genuine(owner, *rt);
        let complete = cands.iter().any(|(zi, g)| t.zones[*zi].status == Status::Secure && *g == set);
        let anchors_only = *rt == ty::DNSKEY && set.iter().all(|rd| is_anchor_key(t, rd));
        if !complete && !anchors_only {
            alarms.push(Alarm {
                rule: "secure-rrset-incomplete",
                detail: tclass(*rt).to_string(),
                expected: json!({"genuine_rrset_size": cands.first().map(|c| c.1.len())}),
                observed: json!({"owner": show(owner), "secure_members": set.len()}),
            });
            continue;
        }
        // ---- (iv) provenance: every link was presented validly in this run ----------------------
        if c.fresh && !anchors_only {
            let top = c.log.first().map(|e| &e.presented);
            let own_sig = top.is_some_and(|resp| {
                resp.recs.iter().any(|r| r.sec == *sec && r.rtype == ty::RRSIG && r.covered() == Some(*rt) && fold(&r.owner) == *owner && c.world.is_genuine_sig(owner, &r.rdata))
            });
            let mut broken: Option<String> = if own_sig { None } else { Some("own-rrsig".into()) };
            if broken.is_none() {
                let zi = cands.iter().find(|(zi, g)| t.zones[*zi].status == Status::Secure && *g == set).map(|c| c.0).unwrap_or(0);
                for p in t.path(zi) {
                    let apex = t.zones[p].apex.clone();
                    if !link_presented(c, &apex, ty::DNSKEY) {
                        broken = Some("dnskey".into());
                        break;
                    }
                    if t.zones[p].parent.is_some() && !link_presented(c, &apex, ty::DS) {
                        broken = Some("ds".into());
                        break;
                    }
                }
            }
            if let Some(b) = broken {
                alarms.push(Alarm {
                    rule: "secure-despite-broken-link",
                    detail: if b == "own-rrsig" { format!("own-rrsig:{}", tclass(*rt)) } else { b.clone() },
                    expected: json!("not Secure: in this run no upstream response presented this link complete and with a genuine signature"),
                    observed: json!({"owner": show(owner), "type": refzone::type_name(*rt), "missing_link": b}),
                });
            }
        }
    }

    // ---- rules on outcomes that a consumer passes on --------------------------------------------
    if obs.is_passed_on() {
        // (iii) Insecure / Indeterminate marks
        for (r, p) in &obs.recs {
            if r.rtype == ty::RRSIG || !matches!(p, Proof::Insecure | Proof::Indeterminate) {
                continue;
            }
            let zs = t.zones_of_record(&r.owner, r.rtype);
            if zs.iter().any(|z| t.zones[*z].status == Status::Insecure) {
                continue;
            }
            if !t.under_anchor(&r.owner) {
                // anchored-island worlds only: no trust anchor at or above the owner name, RFC 4035
                // section 4.3 calls that Indeterminate; never the case in the root-anchored worlds
                continue;
            }
            // an Ok-with-Bogus outcome is an accepted error signal only if the Bogus mark is in the
            // section a consumer summarises; be conservative: any Bogus in answer/authority silences
            if obs.recs.iter().any(|(x, p)| x.sec != 2 && x.rtype != ty::RRSIG && *p == Proof::Bogus) {
                continue;
            }
            alarms.push(Alarm {
                rule: "insecure-in-signed-zone",
                detail: p.to_string(),
                expected: json!("Bogus / error: the zone has a (supported) DS at its parent, nothing proves it insecure"),
                observed: show_rec(r),
            });
        }

        // (ii)/(iii) negative conclusions
        let any_bogus = obs.recs.iter().any(|(r, p)| r.sec != 2 && *p == Proof::Bogus);
        let rcode_ok = obs.rcode == 0 || obs.rcode == 3;
        if !any_bogus && rcode_ok {
            let answers: Vec<&Rec> = obs.recs.iter().filter(|(r, _)| r.sec == SEC_AN && r.rtype != ty::RRSIG).map(|(r, _)| r).collect();
            let mut n = c.qname.clone();
            let mut negative = false;
            // once the chain passes through a link of a truly insecure zone the conclusion is
            // insecure by nature (the attacker could have forged that link at will): not judged
            let mut via_insecure_link = false;
            for _ in 0..12 {
                if answers.iter().any(|r| fold(&r.owner) == n && r.rtype == c.qtype) {
                    break;
                }
                if c.qtype != ty::CNAME {
                    if let Some(cn) = answers.iter().find(|r| fold(&r.owner) == n && r.rtype == ty::CNAME) {
                        let target = refzone::cname_target(&cn.rdata);
                        if target == n {
                            break;
                        }
                        if t.zones[t.responsible(&n, ty::CNAME)].status == Status::Insecure {
                            via_insecure_link = true;
                        }
                        n = target;
                        continue;
                    }
                }
                negative = true;
                break;
            }
            // a forged link already reported under (i) explains whatever follows it
            let forged_link_reported = alarms.iter().any(|a| a.rule == "secure-not-genuine");
            if negative && !via_insecure_link && !forged_link_reported && t.under_anchor(&n) {
                let zi = t.responsible(&n, c.qtype);
                let st = t.zones[zi].status;
                let secure_denial = obs.recs.iter().any(|(r, p)| r.sec == SEC_NS && matches!(r.rtype, chain::T_NSEC | chain::T_NSEC3) && *p == Proof::Secure);
                let insecure_err = matches!(obs.kind, OutKind::ErrNsec(Proof::Insecure));
                if st != Status::Insecure {
                    if !secure_denial || insecure_err {
                        alarms.push(Alarm {
                            rule: "unauthenticated-denial",
                            detail: (if insecure_err { "nsec-error-insecure" } else if answers.is_empty() { "empty-answer" } else { "irrelevant-answer" }).to_string(),
                            expected: json!("error / Bogus: the name lies in a signed zone, the response neither answers the question nor proves the absence"),
                            observed: json!({"name": show(&n), "qtype": refzone::type_name(c.qtype), "rcode": obs.rcode}),
                        });
                    } else if st == Status::Secure {
                        let o = ref_auth(&t.zones[zi].full, &n, c.qtype);
                        let k = o.first_step().kind;
                        let exists_with_data = matches!(k, Kind::Answer | Kind::WildcardAnswer) || (c.qtype != ty::CNAME && matches!(k, Kind::CnameChain | Kind::WildcardCname));
                        if exists_with_data {
                            alarms.push(Alarm {
                                rule: "false-denial",
                                detail: "data-exists".to_string(),
                                expected: json!({"ground_truth": k.as_str()}),
                                observed: json!({"name": show(&n), "qtype": refzone::type_name(c.qtype), "rcode": obs.rcode, "outcome": "Ok with Secure NSEC/NSEC3"}),
                            });
                        } else if obs.rcode == 3 && matches!(k, Kind::Nodata | Kind::EntNodata | Kind::WildcardNodata) {
                            alarms.push(Alarm {
                                rule: "false-denial",
                                detail: "nxdomain-for-existing-name".to_string(),
                                expected: json!({"ground_truth": k.as_str()}),
                                observed: json!({"name": show(&n), "rcode": 3}),
                            });
                        }
                    }
                }
            }
        }
    }

    // ---- honest pass: completeness symptom ----------------------------------------------------------
    if c.honest {
        let zi = t.responsible(c.qname, c.qtype);
        // every zone the honest answer draws from must be non-bogus by configuration
        let mut involved = vec![zi];
        if let Some(e) = c.log.first() {
            for r in &e.honest.recs {
                involved.push(t.responsible(&r.owner, r.rtype));
            }
        }
        let clean = involved.iter().all(|z| t.zones[*z].status != Status::Bogus);
        if clean {
            let rejected = match &obs.kind {
                OutKind::Ok => obs.recs.iter().find(|(r, p)| r.rtype != ty::RRSIG && *p == Proof::Bogus).map(|(r, _)| format!("bogus-{}", tclass(r.rtype))),
                OutKind::ErrNsec(p) => Some(format!("err-nsec-{p}")),
                OutKind::Err(_) => Some("err".into()),
                OutKind::Panic(_) => None,
            };
            if let Some(how) = rejected {
                alarms.push(Alarm {
                    rule: "honest-rejected",
                    detail: how,
                    expected: json!({"zone_status": t.zones[zi].status.as_str(), "outcome": "Ok without Bogus"}),
                    observed: obs.to_json(),
                });
            }
        }
    }
    let _ = rrsig_signer;
    // one alarm per (rule, detail)
    let mut seen: Vec<(&'static str, String)> = Vec::new();
    alarms.retain(|a| {
        let k = (a.rule, a.detail.clone());
        if seen.contains(&k) {
            false
        } else {
            seen.push(k);
            true
        }
    });
    alarms
}
