//! C20 — zone files load to exactly the records they denote; malformed text never panics/hangs.
//!
//! Oracle 1 (rule `exact`): a generated record set (plain representation, `model.rs`) is rendered
//! by an independent master-file printer (`printer.rs`) under a randomised layout;
//! `Parser::new(text, None, Some(origin)).parse()` must return Ok with exactly the denoted records:
//! owner (ASCII-case-insensitive), class, TTL, type and RDATA. RDATA is compared as wire bytes:
//! expected bytes are built from the plain representation per the type's RFC, observed bytes are
//! hickory's uncompressed encoding of the parsed RDATA; octets of domain names embedded in RDATA
//! are compared case-insensitively. Nothing missing, nothing extra.
//!
//! Oracle 2 (rules `panic`, `hang`): mutated texts, structured garbage and raw noise must make
//! parse() *return* (Ok or Err). A mutated text may still be valid, so only panics/hangs are judged.
//!
//! Signatures. `exact`: `<type class>|<layout features of the shrunk witness>`; the failing case
//! is shrunk (items, wishes, field contents) and the record type generalised: `any` when an A
//! record in the same layout fails too, `name-rdata` / `string-rdata` when an NS / TXT record with
//! the same name / strings fails too, else the type mnemonic. `panic`: source file of the panic +
//! head of its message.
//!
//! Don't-cares / generator restrictions (each keeps the oracle inside the property statement):
//!  * W1-W5: `$INCLUDE` never generated; mutants containing it are skipped (no file context). W6/W7
//!    (`include.rs`) drive `$INCLUDE` on a scratch directory tree with `Parser::new(text, Some(path), ..)`.
//!  * `\DDD` escapes and TTL unit suffixes never generated in valid texts (only in garbage).
//!  * the first record always has an explicit TTL unless a `$TTL` precedes it.
//!  * the origin value parse() returns is ignored.
//!  * one TTL and one class per RRset (RFC 2181 §5.2; the container keys RRsets by name+type),
//!    no duplicate RDATA in an RRset, ≤ 1 SOA per file, ≤ 1 CNAME/ANAME per owner (the container
//!    implements the RFC 2136 §1.1.5 replacement rules, which are not layout questions).
//!  * case of names (owner and inside RDATA) is not compared (the parser folds names via UTS-46).
//!  * labels are LDH words, optionally with a leading `_`, `*` as a whole leftmost owner label, and
//!    dots inside labels (printed `\.`); no other escapes in names; no `xn--` labels.
//!  * `$ORIGIN` arguments are always absolute.
//!  * class omitted before any class was stated only for IN.
//!  * non-IN classes (CH, HS) only for TXT, CNAME, NS, PTR, MX, HINFO.
//!  * per-type presentation restrictions where hickory deviates from the type's RFC in ways the
//!    statement does not talk about: CERT/OPENPGPKEY base64 and SSHFP hex in ONE token (hickory
//!    ignores/rejects further tokens although RFC 4398/7929/4255 allow white space); CERT type and
//!    algorithm as numbers; SOA REFRESH/RETRY/EXPIRE ≤ 2^31-1; CSYNC flags ≤ 3 and type mnemonics
//!    only; CAA tags lower-case alphanumerics; SvcParams in increasing key order (hickory keeps
//!    the textual order and then cannot encode the record) with escape-free values; unknown
//!    SvcParamKeys ≥ 7; character-strings are printable ASCII ≤ 255 octets.
//!  * layouts known to hit confirmed parser defects (quoted string inside parentheses, escapes in
//!    unquoted strings, `@` inside RDATA, parenthesis opened before the type, relative SVCB/HTTPS
//!    target, comment longer than 4094 characters) are generated only in a small share of the
//!    cases (`Risk`), so that the bulk of the cases can still see other defects.
//!  * H1 (binary decoder step counter) does not apply: the text path never touches BinDecoder.

mod hky;
mod include;
mod model;
mod mutate;
mod printer;

use std::collections::BTreeSet;
use std::time::{Duration, Instant};

use serde_json::{json, Value};

use vh::mon::{self, hex, unhex, Ctx, PanicRecord, Reporter};
use vh::prng::fnv64;

use model::*;
use printer::*;

const MAX_TEXT: usize = 64 * 1024;
const HANG: Duration = Duration::from_secs(20);

// ---------------------------------------------------------------------------------------------
// expectation and comparison

#[derive(Clone, Debug)]
struct Expect {
    owner: Labels, // folded
    class: u16,
    ttl: u32,
    tcode: u16,
    tname: String,
    wire: Vec<u8>,
    mask: Vec<bool>,
}

fn expect_of(r: &Rec) -> Expect {
    let (wire, mask) = rdata_wire(&r.fields);
    Expect { owner: fold(&r.owner), class: r.class, ttl: r.ttl, tcode: r.tcode, tname: r.tname.to_string(), wire, mask }
}

fn expect_json(e: &Expect) -> Value {
    json!({
        "owner": show_name(&e.owner), "owner_labels": e.owner.iter().map(|l| hex(l)).collect::<Vec<_>>(),
        "class": e.class, "ttl": e.ttl, "type": e.tname, "type_code": e.tcode,
        "rdata": hex(&e.wire), "name_octets": e.mask.iter().map(|b| if *b { '1' } else { '0' }).collect::<String>(),
    })
}

fn expect_from_json(v: &Value) -> Expect {
    Expect {
        owner: v["owner_labels"].as_array().map(|a| a.iter().map(|l| unhex(l.as_str().unwrap_or(""))).collect()).unwrap_or_default(),
        class: v["class"].as_u64().unwrap_or(1) as u16,
        ttl: v["ttl"].as_u64().unwrap_or(0) as u32,
        tcode: v["type_code"].as_u64().unwrap_or(0) as u16,
        tname: v["type"].as_str().unwrap_or("?").to_string(),
        wire: unhex(v["rdata"].as_str().unwrap_or("")),
        mask: v["name_octets"].as_str().unwrap_or("").chars().map(|c| c == '1').collect(),
    }
}

fn rdata_eq(e: &Expect, got: &[u8]) -> bool {
    e.wire.len() == got.len() && e.wire.iter().zip(got.iter()).zip(e.mask.iter()).all(|((a, b), m)| a == b || (*m && a.eq_ignore_ascii_case(b)))
}

fn matches(e: &Expect, p: &hky::Parsed) -> bool {
    e.tcode == p.rtype && e.class == p.class && e.ttl == p.ttl && e.owner == fold(&p.owner) && p.rdata.as_ref().map(|b| rdata_eq(e, b)).unwrap_or(false)
}

fn parsed_json(p: &hky::Parsed) -> Value {
    json!({
        "owner": show_name(&p.owner), "class": p.class, "ttl": p.ttl, "type_code": p.rtype,
        "rdata": match &p.rdata { Ok(b) => json!(hex(b)), Err(e) => json!({"encode_error": e}) },
        "shown": p.shown,
    })
}

enum Verdict {
    Pass,
    Rejected(String),
    Mismatch { missing: Vec<Value>, extra: Vec<Value> },
    Panic(PanicRecord),
}

impl Verdict {
    fn observed(&self) -> Value {
        match self {
            Verdict::Pass => json!("exactly the denoted records"),
            Verdict::Rejected(e) => json!({"parse_error": e}),
            Verdict::Mismatch { missing, extra } => json!({"denoted_but_not_loaded": missing, "loaded_but_not_denoted": extra}),
            Verdict::Panic(p) => json!({"panic": p.message, "at": p.location}),
        }
    }
}

fn judge(text: &str, origin: &[Vec<u8>], exp: &[Expect]) -> Verdict {
    judge_at(text, None, origin, exp)
}

fn judge_at(text: &str, path: Option<std::path::PathBuf>, origin: &[Vec<u8>], exp: &[Expect]) -> Verdict {
    match hky::parse_at(text, path, origin) {
        hky::Outcome::Panic(p) => Verdict::Panic(p),
        hky::Outcome::Err(e) => Verdict::Rejected(e),
        hky::Outcome::Ok(parsed) => {
            let mut used = vec![false; parsed.len()];
            let mut missing = Vec::new();
            for e in exp {
                match (0..parsed.len()).find(|&i| !used[i] && matches(e, &parsed[i])) {
                    Some(i) => used[i] = true,
                    None => missing.push(expect_json(e)),
                }
            }
            let extra: Vec<Value> = parsed.iter().zip(used.iter()).filter(|(_, u)| !**u).map(|(p, _)| parsed_json(p)).collect();
            if missing.is_empty() && extra.is_empty() {
                Verdict::Pass
            } else {
                Verdict::Mismatch { missing, extra }
            }
        }
    }
}

fn panic_sig(p: &PanicRecord) -> String {
    let head: String = p.message.split(|c| matches!(c, ':' | '(' | '`' | ';')).next().unwrap_or("").trim().chars().map(|c| if c.is_ascii_digit() { 'N' } else { c }).take(48).collect();
    // path relative to the repository root, whichever checkout was built
    let site = p.site();
    let site = site.find("crates/").map(|i| site[i..].to_string()).unwrap_or(site);
    format!("{site}|{head}")
}

// ---------------------------------------------------------------------------------------------
// shrinking of a failing exactness case

struct Case {
    origin: Labels,
    recs: Vec<Rec>,
    plan: Plan,
}

fn run_case(c: &Case) -> (Printed, Verdict) {
    let printed = print(&c.origin, &c.recs, &c.plan);
    let exp: Vec<Expect> = printed.denoted.iter().map(|&i| expect_of(&c.recs[i])).collect();
    let v = judge(&printed.text, &c.origin, &exp);
    (printed, v)
}

fn fails(c: &Case) -> bool {
    let (p, v) = run_case(c);
    !p.denoted.is_empty() && matches!(v, Verdict::Rejected(_) | Verdict::Mismatch { .. })
}

fn wish_resets() -> Vec<fn(&mut RecWish)> {
    vec![
        |w| w.paren = Paren::None,
        |w| {
            if let Paren::Rdata { multiline, comments, close, .. } = &mut w.paren {
                *multiline = false;
                *comments = false;
                *close = usize::MAX;
            }
            if let Paren::Early { multiline } = &mut w.paren {
                *multiline = false;
            }
        },
        |w| {
            if let Paren::Rdata { open, .. } = &mut w.paren {
                *open = 0;
            }
        },
        |w| w.owner = OwnerForm::Name(NameForm::Abs),
        |w| w.omit_ttl = false,
        |w| w.omit_class = false,
        |w| w.class_first = false,
        |w| w.lc_mnemonic = false,
        |w| w.uc_names = false,
        |w| w.rd_names = NameForm::Abs,
        |w| w.strings = StrForm::Quoted,
        |w| w.hex_split = false,
        |w| w.hex_upper = false,
        |w| w.alt_forms = false,
        |w| w.tabs = false,
        |w| w.comment = None,
        |w| w.glue_comment = false,
        |w| w.seed = 0,
    ]
}

fn simpler_fields(rec: &Rec, origin: &[Vec<u8>]) -> Vec<Vec<Field>> {
    let mut out = Vec::new();
    if rec.tname == "TXT" && rec.fields.len() > 1 {
        for i in 0..rec.fields.len() {
            let mut f = rec.fields.clone();
            f.remove(i);
            out.push(f);
        }
    }
    for (i, f) in rec.fields.iter().enumerate() {
        if rec.tname == "NAPTR" && i == 2 {
            continue; // flags must stay alphanumeric
        }
        let cands: Vec<Field> = match f {
            // candidates are strictly simpler than the current value (x < "x y" < anything else;
            // origin < n.origin < any other name), so that the search cannot oscillate
            Field::Str(s) | Field::Value(s) => {
                let mk = |c: &[u8]| if matches!(f, Field::Str(_)) { Field::Str(c.to_vec()) } else { Field::Value(c.to_vec()) };
                const LADDER: [&[u8]; 4] = [b"x", b"x y", b"x\"y", b"x\\y"];
                let here = LADDER.iter().position(|c| *c == s.as_slice()).unwrap_or(LADDER.len());
                LADDER[..here].iter().map(|c| mk(c)).collect()
            }
            Field::Name(l) => {
                let mut n = vec![b"n".to_vec()];
                n.extend(origin.iter().cloned());
                if l.as_slice() == origin {
                    vec![]
                } else if *l == n {
                    vec![Field::Name(origin.to_vec())]
                } else {
                    vec![Field::Name(origin.to_vec()), Field::Name(n)]
                }
            }
            Field::Hex(b) if b.len() > 1 => vec![Field::Hex(vec![0xab])],
            Field::Hex1(b) if b.len() > 1 => vec![Field::Hex1(vec![0xab])],
            Field::B64(b) if b.len() > 1 => vec![Field::B64(vec![0xab])],
            Field::Params(p) if !p.is_empty() => vec![Field::Params(vec![])],
            Field::Types(t) if t.len() > 1 => vec![Field::Types(vec![1])],
            _ => vec![],
        };
        for c in cands {
            let mut fs = rec.fields.clone();
            fs[i] = c;
            out.push(fs);
        }
    }
    out
}

/// the same case under another zone origin: every name below the old origin moves below the new
fn rebase(c: &Case, new_origin: &[Vec<u8>]) -> Case {
    let old = fold(&c.origin);
    let mv = |n: &Labels| -> Labels {
        if n.len() >= old.len() && fold(&n[n.len() - old.len()..]) == old {
            let mut v = n[..n.len() - old.len()].to_vec();
            v.extend(new_origin.iter().cloned());
            v
        } else {
            n.clone()
        }
    };
    let mut t = Case { origin: new_origin.to_vec(), recs: c.recs.clone(), plan: c.plan.clone() };
    for r in t.recs.iter_mut() {
        r.owner = mv(&r.owner);
        for f in r.fields.iter_mut() {
            if let Field::Name(l) = f {
                *l = mv(l);
            }
        }
    }
    for it in t.plan.items.iter_mut() {
        if let Item::Origin(o, _) = it {
            *o = mv(o);
        }
    }
    t
}

fn shrink(mut c: Case) -> Case {
    let resets = wish_resets();
    for _round in 0..4 {
        let mut changed = false;
        // 1. drop items
        let mut i = c.plan.items.len();
        while i > 0 {
            i -= 1;
            let mut t = Case { origin: c.origin.clone(), recs: c.recs.clone(), plan: c.plan.clone() };
            t.plan.items.remove(i);
            if fails(&t) {
                c = t;
                changed = true;
            }
        }
        // 1b. fold a $ORIGIN line into the origin argument; then a one-label origin
        let mut i = c.plan.items.len();
        while i > 0 {
            i -= 1;
            if let Item::Origin(o, _) = c.plan.items[i].clone() {
                let mut t = Case { origin: o, recs: c.recs.clone(), plan: c.plan.clone() };
                t.plan.items.remove(i);
                if fails(&t) {
                    c = t;
                    changed = true;
                }
            }
        }
        if c.origin != vec![b"z".to_vec()] {
            let t = rebase(&c, &[b"z".to_vec()]);
            if fails(&t) {
                c = t;
                changed = true;
            }
        }
        // 2. file-level flags
        for k in 0..2 {
            let mut t = Case { origin: c.origin.clone(), recs: c.recs.clone(), plan: c.plan.clone() };
            if k == 0 {
                t.plan.crlf = false;
            } else {
                t.plan.final_newline = true;
            }
            if t.plan != c.plan && fails(&t) {
                c = t;
                changed = true;
            }
        }
        // 3. wishes back to plain, comments off directives
        for i in 0..c.plan.items.len() {
            match c.plan.items[i].clone() {
                Item::Rec(_, _) => {
                    for f in &resets {
                        let mut t = Case { origin: c.origin.clone(), recs: c.recs.clone(), plan: c.plan.clone() };
                        if let Item::Rec(_, w) = &mut t.plan.items[i] {
                            f(w);
                        }
                        if t.plan != c.plan && fails(&t) {
                            c = t;
                            changed = true;
                        }
                    }
                }
                Item::Origin(o, Some(_)) => {
                    let mut t = Case { origin: c.origin.clone(), recs: c.recs.clone(), plan: c.plan.clone() };
                    t.plan.items[i] = Item::Origin(o, None);
                    if fails(&t) {
                        c = t;
                        changed = true;
                    }
                }
                Item::Ttl(x, Some(_)) => {
                    let mut t = Case { origin: c.origin.clone(), recs: c.recs.clone(), plan: c.plan.clone() };
                    t.plan.items[i] = Item::Ttl(x, None);
                    if fails(&t) {
                        c = t;
                        changed = true;
                    }
                }
                _ => {}
            }
        }
        // 4. simpler owners (distinct, below the zone origin) and field contents
        for ri in 0..c.recs.len() {
            let mut o = vec![format!("o{ri}").into_bytes()];
            o.extend(c.origin.iter().cloned());
            if c.recs[ri].owner != o {
                let mut t = Case { origin: c.origin.clone(), recs: c.recs.clone(), plan: c.plan.clone() };
                t.recs[ri].owner = o;
                if fails(&t) {
                    c = t;
                    changed = true;
                }
            }
        }
        for ri in 0..c.recs.len() {
            let mut progress = true;
            let mut guard = 0;
            while progress && guard < 40 {
                progress = false;
                guard += 1;
                for fs in simpler_fields(&c.recs[ri], &c.origin) {
                    let mut t = Case { origin: c.origin.clone(), recs: c.recs.clone(), plan: c.plan.clone() };
                    t.recs[ri].fields = fs;
                    if fails(&t) {
                        c = t;
                        changed = true;
                        progress = true;
                        break;
                    }
                }
            }
        }
        if !changed {
            break;
        }
    }
    c
}

/// `any` / `name-rdata` / `string-rdata` / type mnemonic(s) — see the module comment
fn type_class(c: &Case) -> (String, Option<Case>) {
    let denoted: Vec<usize> = c.plan.items.iter().filter_map(|it| if let Item::Rec(i, _) = it { Some(*i) } else { None }).collect();
    let subst = |f: &dyn Fn(usize, &Rec) -> Option<Rec>| -> Option<Case> {
        let mut t = Case { origin: c.origin.clone(), recs: c.recs.clone(), plan: c.plan.clone() };
        for (k, &i) in denoted.iter().enumerate() {
            t.recs[i] = f(k, &c.recs[i])?;
        }
        if fails(&t) {
            Some(shrink(t))
        } else {
            None
        }
    };
    if let Some(t) = subst(&|k, r| Some(Rec { tname: "A", tcode: 1, fields: vec![Field::Ip4([192, 0, 2, k as u8 + 1])], ..r.clone() })) {
        return ("any".into(), Some(t));
    }
    for which in 0..2 {
        if let Some(t) = subst(&|_k, r| {
            let n = r.fields.iter().filter(|f| matches!(f, Field::Name(_))).nth(which)?;
            Some(Rec { tname: "NS", tcode: 2, fields: vec![n.clone()], ..r.clone() })
        }) {
            return ("name-rdata".into(), Some(t));
        }
    }
    if let Some(t) = subst(&|_k, r| {
        let s: Vec<Field> = r
            .fields
            .iter()
            .filter_map(|f| match f {
                Field::Str(s) | Field::Value(s) => Some(Field::Str(s.clone())),
                _ => None,
            })
            .collect();
        if s.is_empty() {
            return None;
        }
        Some(Rec { tname: "TXT", tcode: 16, fields: s, ..r.clone() })
    }) {
        return ("string-rdata".into(), Some(t));
    }
    let t: BTreeSet<&str> = denoted.iter().map(|&i| c.recs[i].tname).collect();
    (t.into_iter().collect::<Vec<_>>().join("+"), None)
}

fn sig_features(f: &BTreeSet<&'static str>) -> String {
    let v: Vec<&str> = f.iter().copied().filter(|x| !PLAIN.contains(x) && !DERIVED.contains(x)).collect();
    if v.is_empty() {
        "plain".into()
    } else {
        v.join("+")
    }
}

// ---------------------------------------------------------------------------------------------

struct Checker<'a> {
    rep: &'a mut Reporter,
    times_us: Vec<u64>,
}

impl Checker<'_> {
    fn median_us(&mut self) -> u64 {
        if self.times_us.is_empty() {
            return 1;
        }
        let mut v = self.times_us.clone();
        v.sort_unstable();
        v[v.len() / 2].max(1)
    }

    /// Oracle 2 on one text. Returns true when parse() returned Err.
    fn robust(&mut self, text: &str, origin: &[Vec<u8>], workload: &str) -> Option<bool> {
        if text.len() > MAX_TEXT {
            self.rep.count("skipped/too-long");
            return None;
        }
        if text.to_ascii_uppercase().contains("$INCLUDE") {
            self.rep.count("skipped/include");
            return None;
        }
        self.rep.breadcrumb(|| json!({"kind": "robust", "workload": workload, "origin": show_name(origin), "origin_labels": origin.iter().map(|l| hex(l)).collect::<Vec<_>>(), "text": text}));
        let t0 = Instant::now();
        let out = hky::parse(text, origin);
        let dt = t0.elapsed();
        self.rep.eval();
        if self.times_us.len() < 20_000 {
            self.times_us.push(dt.as_micros() as u64);
        }
        self.rep.max("max_parse_ms", dt.as_secs_f64() * 1e3);
        let case = || json!({"kind": "robust", "workload": workload, "origin": show_name(origin), "origin_labels": origin.iter().map(|l| hex(l)).collect::<Vec<_>>(), "text": text});
        if dt >= HANG {
            // DESIGN §5.5: ≥ 20 s and ≥ 10^4 × median, reproduced three times alone
            let med = self.median_us();
            let mut again = 0;
            for _ in 0..3 {
                let t = Instant::now();
                let _ = hky::parse(text, origin);
                if t.elapsed() >= HANG && t.elapsed().as_micros() as u64 >= 10_000 * med {
                    again += 1;
                }
            }
            if again == 3 {
                self.rep.violation("hang", workload, case(), json!("parse() returns promptly"), json!({"seconds": dt.as_secs_f64(), "median_us": med}));
            } else {
                self.rep.inconclusive("a case exceeded 20 s once but did not reproduce as a hang");
            }
        }
        match out {
            hky::Outcome::Ok(_) => {
                self.rep.count(&format!("robust/{workload}/ok"));
                Some(false)
            }
            hky::Outcome::Err(_) => {
                self.rep.count(&format!("robust/{workload}/err"));
                self.rep.count("malformed_rejected");
                Some(true)
            }
            hky::Outcome::Panic(p) => {
                self.rep.count(&format!("robust/{workload}/panic"));
                self.rep.violation("panic", &panic_sig(&p), case(), json!("parse() returns Ok or Err"), json!({"panic": p.message, "at": p.location}));
                None
            }
        }
    }

    /// W6, oracle 1 across `$INCLUDE`: the hardened plan is printed, spread over files and loaded
    /// through the main file's path. Returns the tree for the hostile / mutation workload.
    fn include_exact(&mut self, rng: &mut vh::prng::Rng, mut c: Case, n: u64) -> Option<include::Tree> {
        let cut = include::choose_cut(rng, &c.plan.items)?;
        include::harden_plan(&mut c.plan, &cut);
        let printed = print(&c.origin, &c.recs, &c.plan);
        if printed.text.len() > MAX_TEXT || printed.denoted.is_empty() {
            return None;
        }
        let exp: Vec<Expect> = printed.denoted.iter().map(|&i| expect_of(&c.recs[i])).collect();
        // the unsplit text is the control: a layout that already fails inline is W1's business
        if !matches!(judge(&printed.text, &c.origin, &exp), Verdict::Pass) {
            self.rep.count("include/skipped-inline-fails");
            return None;
        }
        let tree = include::build(rng, &printed, &cut, c.plan.final_newline);
        let verdict = self.include_judge(&tree, &c.origin, &exp, n);
        self.rep.eval();
        self.rep.count("include/cases");
        self.rep.count(&format!("include/files-{}", tree.files.len()));
        let case = || json!({"kind": "include", "sig": format!("include|{}", shape_class(&tree.shape)), "origin": show_name(&c.origin), "origin_labels": c.origin.iter().map(|l| hex(l)).collect::<Vec<_>>(),
                             "tree": include::tree_json(&tree), "inline_text": printed.text, "records": exp.iter().map(expect_json).collect::<Vec<_>>()});
        match &verdict {
            None => {
                self.rep.count("include/scratch-io-error");
            }
            Some(Verdict::Pass) => {
                self.rep.count("include/pass");
                self.rep.count(&format!("include/pass/{}", shape_class(&tree.shape)));
                self.rep.add("include/records", exp.len() as u64);
                self.rep.nontrivial(fnv64(format!("{:?}", tree.files).as_bytes()));
                if self.rep.get("include/pass") % 512 == 1 {
                    self.rep.sample(case);
                }
            }
            Some(Verdict::Panic(p)) => {
                self.rep.count("include/panic");
                self.rep.violation("panic", &panic_sig(p), case(), json!("parse() returns Ok with the denoted records"), verdict.as_ref().unwrap().observed());
            }
            Some(v) => {
                self.rep.count("include/fail");
                self.rep.violation("exact", &format!("include|{}", shape_class(&tree.shape)), case(), json!("Ok with exactly the records listed in case.records (the unsplit text case.inline_text loads to exactly them)"), v.observed());
            }
        }
        Some(tree)
    }

    fn include_judge(&mut self, tree: &include::Tree, origin: &[Vec<u8>], exp: &[Expect], n: u64) -> Option<Verdict> {
        let scratch = include::Scratch::new(n);
        let (path, text) = scratch.write(tree).ok()?;
        Some(judge_at(&text, Some(path), origin, exp))
    }

    /// W7, oracle 2 on a file tree: Ok or Err, no panic, promptly.
    fn include_robust(&mut self, tree: &include::Tree, origin: &[Vec<u8>], workload: &str, n: u64) {
        let case = || json!({"kind": "include-robust", "workload": workload, "origin": show_name(origin), "origin_labels": origin.iter().map(|l| hex(l)).collect::<Vec<_>>(), "tree": include::tree_json(tree)});
        self.rep.breadcrumb(case);
        let scratch = include::Scratch::new(n);
        let Ok((path, text)) = scratch.write(tree) else {
            self.rep.count("include/scratch-io-error");
            return;
        };
        let t0 = Instant::now();
        let out = hky::parse_at(&text, Some(path.clone()), origin);
        let dt = t0.elapsed();
        self.rep.eval();
        self.rep.max("max_include_parse_ms", dt.as_secs_f64() * 1e3);
        self.rep.count(&format!("include-robust/{workload}/seen"));
        if dt >= HANG {
            let mut again = 0;
            for _ in 0..3 {
                let t = Instant::now();
                let _ = hky::parse_at(&text, Some(path.clone()), origin);
                if t.elapsed() >= HANG {
                    again += 1;
                }
            }
            if again == 3 {
                self.rep.violation("hang", workload, case(), json!("parse() returns promptly"), json!({"seconds": dt.as_secs_f64()}));
            } else {
                self.rep.inconclusive("an include case exceeded 20 s once but did not reproduce as a hang");
            }
            return;
        }
        match out {
            hky::Outcome::Ok(_) => self.rep.count(&format!("include-robust/{workload}/ok")),
            hky::Outcome::Err(_) => {
                self.rep.count(&format!("include-robust/{workload}/err"));
            }
            hky::Outcome::Panic(p) => {
                self.rep.count(&format!("include-robust/{workload}/panic"));
                self.rep.violation("panic", &panic_sig(&p), case(), json!("Ok or Err"), json!({"panic": p.message, "at": p.location}));
            }
        }
    }

    /// Oracle 1 on one generated case; returns the printed text for the mutation workload.
    fn exact(&mut self, c: Case, risk: Risk) -> Option<String> {
        let (printed, verdict) = run_case(&c);
        if printed.text.len() > MAX_TEXT {
            self.rep.count("skipped/too-long");
            return None;
        }
        self.rep.eval();
        self.rep.count("exact/cases");
        let layout: Vec<&str> = printed.features.iter().copied().filter(|f| !PLAIN.contains(f)).collect();
        if printed.denoted.len() >= 2 && layout.len() >= 2 {
            self.rep.nontrivial(fnv64(printed.text.as_bytes()));
            self.rep.count("exact/nontrivial");
        }
        for f in &printed.features {
            self.rep.count(&format!("feature/{f}"));
        }
        self.rep.add("exact/records", printed.denoted.len() as u64);
        self.rep.max("max_records_per_case", printed.denoted.len() as f64);
        let exp: Vec<Expect> = printed.denoted.iter().map(|&i| expect_of(&c.recs[i])).collect();
        match &verdict {
            Verdict::Pass => {
                self.rep.count("exact/pass");
                for f in &printed.features {
                    self.rep.count(&format!("feature_ok/{f}"));
                }
                for e in &exp {
                    self.rep.count(&format!("type_ok/{}", e.tname));
                }
                self.rep.sample(|| json!({"kind": "exact", "origin": show_name(&c.origin), "text": printed.text, "features": printed.features, "records": exp.iter().map(expect_json).collect::<Vec<_>>()}));
            }
            Verdict::Panic(p) => {
                self.rep.count("exact/panic");
                let case = json!({"kind": "robust", "workload": "valid-text", "origin": show_name(&c.origin), "origin_labels": c.origin.iter().map(|l| hex(l)).collect::<Vec<_>>(), "text": printed.text, "features": printed.features});
                self.rep.violation("panic", &panic_sig(p), case, json!("parse() returns Ok with the denoted records"), verdict.observed());
            }
            Verdict::Rejected(_) | Verdict::Mismatch { .. } => {
                self.rep.count("exact/fail");
                self.rep.count(&format!("exact/fail/risk-{risk:?}"));
                let s = shrink(c);
                // the witness is the shrunk case, generalised to the simplest record type that
                // still fails in the same layout (if any)
                let (tclass, general) = type_class(&s);
                let s = general.unwrap_or(s);
                let (sp, sv) = run_case(&s);
                let sig = format!("{}|{}", tclass, sig_features(&sp.features));
                let sexp: Vec<Expect> = sp.denoted.iter().map(|&i| expect_of(&s.recs[i])).collect();
                let case = json!({
                    "kind": "exact", "sig": sig, "origin": show_name(&s.origin), "origin_labels": s.origin.iter().map(|l| hex(l)).collect::<Vec<_>>(),
                    "text": sp.text, "features": sp.features, "records": sexp.iter().map(expect_json).collect::<Vec<_>>(),
                    "unshrunk": {"text": printed.text, "features": printed.features, "records": exp.iter().map(expect_json).collect::<Vec<_>>(), "observed": verdict.observed()},
                });
                self.rep.violation("exact", &sig, case, json!("Ok with exactly the records listed in case.records"), sv.observed());
            }
        }
        Some(printed.text)
    }
}

/// signature class of an include layout: path kinds and nesting, without the optional decorations
fn shape_class(shape: &str) -> String {
    shape.replace("+comment", "")
}

fn labels_from_json(v: &Value) -> Labels {
    v.as_array().map(|a| a.iter().map(|l| unhex(l.as_str().unwrap_or(""))).collect()).unwrap_or_default()
}

fn main() {
    let ctx = Ctx::from_args("C20");
    mon::install_panic_monitor();

    // developer aid: `c20 probe=FILE [origin=a.b]` parses hand-written texts separated by "\n====\n"
    if let Some(p) = ctx.extra.get("probe") {
        let text = std::fs::read_to_string(p).expect("probe file");
        let origin: Labels = ctx.extra.get("origin").map(|s| s.as_str()).unwrap_or("example.com").split('.').filter(|s| !s.is_empty()).map(|s| s.as_bytes().to_vec()).collect();
        for chunk in text.split("\n====\n") {
            println!("---- {chunk:?}");
            match hky::parse(chunk, &origin) {
                hky::Outcome::Ok(v) => {
                    for r in v {
                        println!("  {} class={} ttl={} type={} rdata={} [{}]", show_name(&r.owner), r.class, r.ttl, r.rtype, r.rdata.as_ref().map(|b| hex(b)).unwrap_or_else(|e| format!("ENCODE-ERR {e}")), r.shown);
                    }
                }
                hky::Outcome::Err(e) => println!("  ERR {e}"),
                hky::Outcome::Panic(p) => println!("  PANIC {} at {}", p.message, p.location),
            }
        }
        return;
    }

    let mut rep = Reporter::new(&ctx);

    if let Some(w) = ctx.replay_case() {
        let c = &w["case"];
        let origin = labels_from_json(&c["origin_labels"]);
        let text = c["text"].as_str().unwrap_or("").to_string();
        if c["kind"] == "exact" {
            let exp: Vec<Expect> = c["records"].as_array().map(|a| a.iter().map(expect_from_json).collect()).unwrap_or_default();
            rep.eval();
            let v = judge(&text, &origin, &exp);
            match &v {
                Verdict::Pass => {}
                Verdict::Panic(p) => rep.violation("panic", &panic_sig(p), c.clone(), json!("Ok with the denoted records"), v.observed()),
                _ => rep.violation("exact", c["sig"].as_str().unwrap_or("?"), c.clone(), json!("Ok with exactly the records listed in case.records"), v.observed()),
            }
        } else if c["kind"] == "include" {
            let exp: Vec<Expect> = c["records"].as_array().map(|a| a.iter().map(expect_from_json).collect()).unwrap_or_default();
            let tree = include::tree_from_json(&c["tree"]);
            rep.eval();
            let mut ck = Checker { rep: &mut rep, times_us: Vec::new() };
            match ck.include_judge(&tree, &origin, &exp, 0) {
                None => ck.rep.inconclusive("could not write the include tree to the scratch directory"),
                Some(Verdict::Pass) => {}
                Some(v) => match &v {
                    Verdict::Panic(p) => ck.rep.violation("panic", &panic_sig(p), c.clone(), json!("Ok with the denoted records"), v.observed()),
                    _ => ck.rep.violation("exact", c["sig"].as_str().unwrap_or("?"), c.clone(), json!("Ok with exactly the records listed in case.records"), v.observed()),
                },
            }
        } else if c["kind"] == "include-robust" {
            let tree = include::tree_from_json(&c["tree"]);
            let mut ck = Checker { rep: &mut rep, times_us: Vec::new() };
            ck.include_robust(&tree, &origin, c["workload"].as_str().unwrap_or("replay"), 0);
        } else {
            let mut ck = Checker { rep: &mut rep, times_us: Vec::new() };
            ck.robust(&text, &origin, c["workload"].as_str().unwrap_or("replay"));
        }
        rep.replay_finish();
    }

    // ---- must observe (quick-tier totals over all shards; thresholds ≥ 3× below what is seen)
    let thorough = ctx.is_thorough();
    let scale = if thorough { 20 } else { 1 };
    rep.must("exact/pass", 30_000 * scale);
    rep.must("exact/nontrivial", 30_000 * scale);
    rep.must("malformed_rejected", 100_000 * scale);
    rep.must("include/pass", 3_000 * scale);
    for sh in ["rel", "abs", "rel/nested-rel", "rel/nested-abs", "abs/nested-rel"] {
        rep.must(&format!("include/pass/{sh}"), 100 * scale);
    }
    for w in ["cycle-self", "cycle-mutual", "missing-file", "directory", "malformed-entry", "domain-name", "deep-chain", "same-file-twice"] {
        rep.must(&format!("include-robust/{w}/seen"), 20 * scale);
    }
    for (t, _) in TYPES {
        rep.must(&format!("type_ok/{t}"), 5_000 * scale);
    }
    for f in FEATURES {
        if RISKY.contains(f) {
            rep.must(&format!("feature/{f}"), 100 * scale);
        } else {
            rep.must(&format!("feature_ok/{f}"), 2_000 * scale);
        }
    }

    let mut ck = Checker { rep: &mut rep, times_us: Vec::new() };

    // ---- W1 valid texts (oracle 1) + W2 their mutants (oracle 2)
    let n_zones = ctx.budget(120_000, 3_000_000);
    let mut rng = ctx.rng("zones");
    let mut mrng = ctx.rng("mutants");
    let mut irng = ctx.rng("include");
    let mut type_cursor = ctx.shard as usize * 7;
    for i in 0..n_zones {
        let zone = gen_zone(&mut rng, &mut type_cursor);
        let risk = match rng.below(60) {
            0 => Risk::RdataAt,
            1 => Risk::BareEsc,
            2 => Risk::ParenEarly,
            3 => Risk::LongComment,
            4 | 5 => Risk::QuotedInParen,
            6 => Risk::SvcbRel,
            _ => Risk::None,
        };
        let plan = gen_plan(&mut rng, &zone, risk);
        let origin = zone.origin.clone();
        // ---- W6 the same zone spread over $INCLUDEd files (every 32nd zone, plain-risk layouts), W7 hostile trees
        if i % 32 == 3 && risk == Risk::None {
            let c = Case { origin: origin.clone(), recs: zone.recs.clone(), plan: plan.clone() };
            if let Some(tree) = ck.include_exact(&mut irng, c, i) {
                if irng.chance(1, 3) {
                    // one file of the tree damaged by 1-3 mutation steps
                    let mut t = tree.clone();
                    let k = irng.usize_below(t.files.len());
                    let mut m = mutate::mutate(&mut irng, &t.files[k].1);
                    for _ in 0..irng.below(3) {
                        m = mutate::mutate(&mut irng, &m);
                    }
                    t.files[k].1 = m;
                    ck.include_robust(&t, &origin, "mutant-file", i);
                }
                if irng.chance(1, 3) {
                    let body = tree.files.last().map(|f| f.1.clone()).unwrap_or_default();
                    let (t, label) = include::hostile(&mut irng, &body);
                    ck.include_robust(&t, &origin, label, i);
                }
            }
        }
        let Some(text) = ck.exact(Case { origin: origin.clone(), recs: zone.recs, plan }, risk) else { continue };
        // mutants: 1–3 mutation steps each
        let n_mut = if i % 2 == 0 { 7 } else { 6 };
        for _ in 0..n_mut {
            let mut m = mutate::mutate(&mut mrng, &text);
            for _ in 0..mrng.below(3) {
                m = mutate::mutate(&mut mrng, &m);
            }
            if m == text {
                continue;
            }
            ck.rep.count("mutants");
            ck.robust(&m, &origin, "mutant");
        }
    }

    // ---- W3 structured garbage, W4 raw noise, W5 very long tokens
    let mut grng = ctx.rng("garbage");
    let origin: Labels = vec![b"example".to_vec(), b"com".to_vec()];
    for _ in 0..ctx.budget(280_000, 7_000_000) {
        let t = mutate::structured_garbage(&mut grng);
        ck.robust(&t, &origin, "structured");
    }
    for i in 0..ctx.budget(160_000, 4_000_000) {
        let maxlen = if i % 64 == 0 { 20_000 } else { 2_000 };
        let t = mutate::raw_garbage(&mut grng, maxlen);
        ck.robust(&t, &origin, "raw");
    }
    for _ in 0..ctx.budget(640, 16_000) {
        let t = mutate::long_token_garbage(&mut grng);
        ck.robust(&t, &origin, "long-token");
    }

    let med = ck.median_us();
    ck.rep.max("median_parse_us", med as f64);
    std::process::exit(rep.finish().min(0));
}
