//! Plain-typed model of a small simulated internet: zones, servers, hostile injections.
//! Everything is text (lower-case absolute names, textual addresses) so that a world is its own
//! replay format and nothing here depends on hickory's `Name` semantics.

use serde_json::{json, Value};

// ---------------------------------------------------------------------------------------------
// names (lower-case ASCII, absolute, "." = root)

pub fn labels(n: &str) -> Vec<&str> {
    n.split('.').filter(|l| !l.is_empty()).collect()
}

/// `child` is `parent` or a descendant of it (label-wise suffix match, ASCII case-insensitive).
pub fn is_sub(child: &str, parent: &str) -> bool {
    let c = labels(child);
    let p = labels(parent);
    if p.len() > c.len() {
        return false;
    }
    c[c.len() - p.len()..].iter().zip(p.iter()).all(|(a, b)| a.eq_ignore_ascii_case(b))
}

pub fn parent_of(n: &str) -> String {
    let l = labels(n);
    if l.len() <= 1 {
        ".".to_string()
    } else {
        format!("{}.", l[1..].join("."))
    }
}

pub fn lower(n: &str) -> String {
    n.to_ascii_lowercase()
}

// ---------------------------------------------------------------------------------------------
// records

#[derive(Clone, Debug, PartialEq, Eq)]
pub struct Rec {
    pub owner: String,
    /// "A" | "AAAA" | "NS" | "CNAME" | "TXT"
    pub rtype: String,
    /// address text, target name, or text
    pub data: String,
}

impl Rec {
    pub fn new(owner: &str, rtype: &str, data: &str) -> Rec {
        Rec { owner: owner.to_string(), rtype: rtype.to_string(), data: data.to_string() }
    }
    pub fn text(&self) -> String {
        format!("{} {} {}", self.owner, self.rtype, self.data)
    }
    pub fn parse(s: &str) -> Option<Rec> {
        let mut it = s.split_whitespace();
        let owner = it.next()?;
        let rtype = it.next()?;
        let data = it.next()?;
        Some(Rec::new(owner, rtype, data))
    }
}

fn recs_json(v: &[Rec]) -> Value {
    Value::Array(v.iter().map(|r| Value::String(r.text())).collect())
}
fn recs_from(v: &Value) -> Vec<Rec> {
    v.as_array().map(|a| a.iter().filter_map(|x| x.as_str().and_then(Rec::parse)).collect()).unwrap_or_default()
}
fn strs_json(v: &[String]) -> Value {
    Value::Array(v.iter().map(|s| Value::String(s.clone())).collect())
}
fn strs_from(v: &Value) -> Vec<String> {
    v.as_array().map(|a| a.iter().filter_map(|x| x.as_str().map(|s| s.to_string())).collect()).unwrap_or_default()
}

#[derive(Clone, Debug)]
pub struct Zone {
    pub apex: String,
    pub recs: Vec<Rec>,
}

/// One hostile addition made by a server to its otherwise genuine responses.
#[derive(Clone, Debug)]
pub struct Inj {
    /// marker id, unique in the world; every record of the injection carries it in its RDATA
    /// (address 203.0.113.m / 2001:db8:bad::m, or a target name whose first label is `evil<m>`)
    pub m: u32,
    /// a-victim | aaaa-victim | ns-foreign | ns-parent | ns-foreign-glue | glue-ooz | cname-forged | control
    pub kind: String,
    /// 0 answer, 1 authority, 2 additional — where `recs[0]` goes (further records of an NS
    /// injection, i.e. its glue, always go to additional)
    pub section: u8,
    /// genuine response kinds it is attached to: referral | answer | nodata | nxdomain
    pub on: Vec<String>,
    /// only for queries for exactly this name ("" = any)
    pub only_qname: String,
    /// attach to every `period`-th matching response (1 = always)
    pub period: u32,
    pub recs: Vec<Rec>,
    /// owner of the record that makes this injection out-of-bailiwick (what the oracle tests
    /// against the injector's territory when the marker address is *contacted*)
    pub cause_owner: String,
    /// "" = add `recs` to the genuine response; "move" = additionally relocate the genuine answer
    /// records into section `section` (1 authority / 2 additional), which makes the response an
    /// *answer-less positive* response (empty answer section, the records asked for elsewhere)
    pub mode: String,
}

#[derive(Clone, Debug, Default)]
pub struct Server {
    pub ip: String,
    /// apexes of the zones it answers for
    pub zones: Vec<String>,
    /// behaviour for names outside `zones`: refused | servfail | upward | silent
    pub lame: String,
    /// never answers anything
    pub silent: bool,
    /// follows in-zone CNAMEs in its answers
    pub chase: bool,
    /// referral-ladder: NS queries below this apex are answered with a delegation of the query
    /// name itself to this very server ("" = off)
    pub ladder: String,
    /// marker of the injection whose address this sink listens on (0 = not a sink)
    pub sink: u32,
    pub inj: Vec<Inj>,
    /// listens on TCP too and answers TC=1 over UDP when a response exceeds the payload size the
    /// query advertises (false = the historical behaviour: TCP connects are logged and refused,
    /// datagrams are never truncated)
    pub tcp: bool,
}

/// Hostile CNAME fan-out (fanout.rs): the servers of `zones` answer every query for a name
/// `t[-<i>]*.<zone>` of fewer than `nest` indices with `k` CNAME records in ONE response (all in
/// bailiwick of the zone asked), whose targets `t..-<i>.<zones[i % n]>` are again names they serve
/// the same way; names of `nest` indices are plain leaves. Procedural on purpose: the response
/// size is a parameter, the world (zones, servers, delegations) does not depend on it.
#[derive(Clone, Debug, PartialEq)]
pub struct Fan {
    /// zones[0] = home of the entry name `t.<zones[0]>`; the others are reached across zone cuts
    pub zones: Vec<String>,
    pub k: u32,
    pub nest: u8,
    /// answer | authority | additional | spread (record i goes to section i % 3)
    pub layout: String,
    /// qname = every CNAME is owned by the name asked (several CNAMEs at one owner);
    /// other = CNAME i is owned by `x..-<i>.<zone asked>`
    pub owner: String,
    /// the response also carries a record of the type asked at the name asked (always the case
    /// when no CNAME goes to the answer section: the response would be a NODATA otherwise)
    pub a_rec: bool,
}

impl Fan {
    pub fn to_json(&self) -> Value {
        json!({"zones": strs_json(&self.zones), "k": self.k, "nest": self.nest, "layout": self.layout, "owner": self.owner, "a_rec": self.a_rec})
    }
    pub fn from_json(v: &Value) -> Option<Fan> {
        Some(Fan {
            zones: strs_from(&v["zones"]),
            k: v["k"].as_u64()? as u32,
            nest: v["nest"].as_u64().unwrap_or(1) as u8,
            layout: v["layout"].as_str().unwrap_or("answer").to_string(),
            owner: v["owner"].as_str().unwrap_or("other").to_string(),
            a_rec: v["a_rec"].as_bool().unwrap_or(true),
        })
    }
    /// `Some(indices)` when `label` is a fan name label `t[-<i>]*`
    pub fn path(label: &str) -> Option<Vec<u32>> {
        let rest = label.strip_prefix('t')?;
        if rest.is_empty() {
            return Some(vec![]);
        }
        let mut v = vec![];
        for part in rest.strip_prefix('-')?.split('-') {
            if part.is_empty() || part.len() > 6 || !part.bytes().all(|b| b.is_ascii_digit()) {
                return None;
            }
            v.push(part.parse().ok()?);
        }
        Some(v)
    }
    /// (zone, path) when `name` is a fan name directly below one of the fan zones
    pub fn locate(&self, name: &str) -> Option<(&str, Vec<u32>)> {
        let l = labels(name);
        let first = l.first()?;
        let z = self.zones.iter().find(|z| labels(z).len() + 1 == l.len() && is_sub(name, z))?;
        Some((z.as_str(), Fan::path(&first.to_ascii_lowercase())?))
    }
}

#[derive(Clone, Debug)]
pub struct Opts {
    pub recursion_limit: u8,
    pub ns_recursion_limit: u8,
    pub deny_server: Vec<String>,
    pub allow_server: Vec<String>,
    pub deny_answers: Vec<String>,
    pub allow_answers: Vec<String>,
    pub case_randomization: bool,
    pub relaxed_qmin: bool,
}

#[derive(Clone, Debug)]
pub struct World {
    pub roots: Vec<String>,
    pub zones: Vec<Zone>,
    pub servers: Vec<Server>,
    pub opts: Opts,
    /// (name, type) resolved in this order on one recursor
    pub queries: Vec<(String, String)>,
    /// pathology / feature tags present (for must-observe counters)
    pub tags: Vec<String>,
    /// hostile CNAME fan-out served by the zones it names (None in every other kind of world)
    pub fan: Option<Fan>,
}

impl World {
    pub fn zone(&self, apex: &str) -> Option<&Zone> {
        self.zones.iter().find(|z| z.apex == apex)
    }
    pub fn zone_mut(&mut self, apex: &str) -> &mut Zone {
        if let Some(i) = self.zones.iter().position(|z| z.apex == apex) {
            return &mut self.zones[i];
        }
        self.zones.push(Zone { apex: apex.to_string(), recs: vec![] });
        self.zones.last_mut().unwrap()
    }
    pub fn server(&self, ip: &str) -> Option<&Server> {
        self.servers.iter().find(|s| s.ip == ip)
    }
    pub fn server_mut(&mut self, ip: &str) -> &mut Server {
        if let Some(i) = self.servers.iter().position(|s| s.ip == ip) {
            return &mut self.servers[i];
        }
        self.servers.push(Server { ip: ip.to_string(), lame: "refused".into(), ..Default::default() });
        self.servers.last_mut().unwrap()
    }
    pub fn all_injections(&self) -> Vec<(&Server, &Inj)> {
        let mut v = vec![];
        for s in &self.servers {
            for i in &s.inj {
                v.push((s, i));
            }
        }
        v
    }

    pub fn to_json(&self) -> Value {
        let mut v = json!({
            "roots": strs_json(&self.roots),
            "zones": self.zones.iter().map(|z| json!({"apex": z.apex, "recs": recs_json(&z.recs)})).collect::<Vec<_>>(),
            "servers": self.servers.iter().map(|s| json!({
                "ip": s.ip, "zones": strs_json(&s.zones), "lame": s.lame, "silent": s.silent, "chase": s.chase,
                "ladder": s.ladder, "sink": s.sink,
                "inj": s.inj.iter().map(|i| json!({
                    "m": i.m, "kind": i.kind, "section": i.section, "on": strs_json(&i.on), "only_qname": i.only_qname,
                    "period": i.period, "recs": recs_json(&i.recs), "cause_owner": i.cause_owner, "mode": i.mode,
                })).collect::<Vec<_>>(),
            })).collect::<Vec<_>>(),
            "opts": {
                "recursion_limit": self.opts.recursion_limit, "ns_recursion_limit": self.opts.ns_recursion_limit,
                "deny_server": strs_json(&self.opts.deny_server), "allow_server": strs_json(&self.opts.allow_server),
                "deny_answers": strs_json(&self.opts.deny_answers), "allow_answers": strs_json(&self.opts.allow_answers),
                "case_randomization": self.opts.case_randomization, "relaxed_qmin": self.opts.relaxed_qmin,
            },
            "queries": self.queries.iter().map(|(n, t)| Value::String(format!("{n} {t}"))).collect::<Vec<_>>(),
            "tags": strs_json(&self.tags),
        });
        // only present where used: the encoding of every other world is what it always was
        if let Some(f) = &self.fan {
            v["fan"] = f.to_json();
        }
        for (i, s) in self.servers.iter().enumerate() {
            if s.tcp {
                v["servers"][i]["tcp"] = json!(true);
            }
        }
        v
    }

    pub fn from_json(v: &Value) -> Option<World> {
        let o = &v["opts"];
        Some(World {
            roots: strs_from(&v["roots"]),
            zones: v["zones"].as_array()?.iter().map(|z| Zone { apex: z["apex"].as_str().unwrap_or(".").to_string(), recs: recs_from(&z["recs"]) }).collect(),
            servers: v["servers"]
                .as_array()?
                .iter()
                .map(|s| Server {
                    ip: s["ip"].as_str().unwrap_or("").to_string(),
                    zones: strs_from(&s["zones"]),
                    lame: s["lame"].as_str().unwrap_or("refused").to_string(),
                    silent: s["silent"].as_bool().unwrap_or(false),
                    chase: s["chase"].as_bool().unwrap_or(false),
                    ladder: s["ladder"].as_str().unwrap_or("").to_string(),
                    sink: s["sink"].as_u64().unwrap_or(0) as u32,
                    tcp: s["tcp"].as_bool().unwrap_or(false),
                    inj: s["inj"]
                        .as_array()
                        .map(|a| {
                            a.iter()
                                .map(|i| Inj {
                                    m: i["m"].as_u64().unwrap_or(0) as u32,
                                    kind: i["kind"].as_str().unwrap_or("").to_string(),
                                    section: i["section"].as_u64().unwrap_or(0) as u8,
                                    on: strs_from(&i["on"]),
                                    only_qname: i["only_qname"].as_str().unwrap_or("").to_string(),
                                    period: i["period"].as_u64().unwrap_or(1).max(1) as u32,
                                    recs: recs_from(&i["recs"]),
                                    cause_owner: i["cause_owner"].as_str().unwrap_or("").to_string(),
                                    mode: i["mode"].as_str().unwrap_or("").to_string(),
                                })
                                .collect()
                        })
                        .unwrap_or_default(),
                })
                .collect(),
            opts: Opts {
                recursion_limit: o["recursion_limit"].as_u64().unwrap_or(10) as u8,
                ns_recursion_limit: o["ns_recursion_limit"].as_u64().unwrap_or(10) as u8,
                deny_server: strs_from(&o["deny_server"]),
                allow_server: strs_from(&o["allow_server"]),
                deny_answers: strs_from(&o["deny_answers"]),
                allow_answers: strs_from(&o["allow_answers"]),
                case_randomization: o["case_randomization"].as_bool().unwrap_or(false),
                relaxed_qmin: o["relaxed_qmin"].as_bool().unwrap_or(false),
            },
            queries: strs_from(&v["queries"])
                .iter()
                .filter_map(|s| {
                    let mut it = s.split_whitespace();
                    Some((it.next()?.to_string(), it.next()?.to_string()))
                })
                .collect(),
            tags: strs_from(&v["tags"]),
            fan: v.get("fan").and_then(Fan::from_json),
        })
    }
}

// ---------------------------------------------------------------------------------------------
// markers

pub const EVIL_V4_PREFIX: &str = "203.0.113.";
pub const EVIL_V6_PREFIX: &str = "2001:db8:bad::";

pub fn evil_v4(m: u32) -> String {
    format!("{EVIL_V4_PREFIX}{m}")
}
pub fn evil_v6(m: u32) -> String {
    format!("{EVIL_V6_PREFIX}{m:x}")
}

/// marker carried by an address (textual form as produced by std's Display)
pub fn marker_of_ip(ip: &std::net::IpAddr) -> Option<u32> {
    match ip {
        std::net::IpAddr::V4(a) => {
            let o = a.octets();
            (o[0] == 203 && o[1] == 0 && o[2] == 113).then_some(o[3] as u32)
        }
        std::net::IpAddr::V6(a) => {
            let s = a.segments();
            (s[0] == 0x2001 && s[1] == 0xdb8 && s[2] == 0xbad && s[3..7].iter().all(|x| *x == 0)).then_some(s[7] as u32)
        }
    }
}

/// marker carried by a name: some label of the form `evil<digits>`
pub fn marker_of_name(n: &str) -> Option<u32> {
    for l in labels(n) {
        let l = l.to_ascii_lowercase();
        if let Some(d) = l.strip_prefix("evil") {
            if !d.is_empty() && d.bytes().all(|b| b.is_ascii_digit()) {
                return d.parse().ok();
            }
        }
    }
    None
}
