//! Generators: names, schema-driven raw RDATA for every record type, whole wire messages
//! (with compression), structure-aware byte mutators. Everything is built from raw bytes so the
//! bytes are the ground truth (decoded independently by `refwire`).

use crate::prng::Rng;
use crate::refwire::{self, Labels, WHeader};

// ---------------------------------------------------------------------------------------------
// names

pub const EDGE_BYTES: [u8; 12] = [0x00, 0x01, 0x2e, 0x5c, 0x2a, 0x3f, 0x40, 0x7f, 0x80, 0xc0, 0xff, 0x20];

#[derive(Clone, Copy, PartialEq, Eq, Debug)]
pub enum NameStyle {
    /// letters/digits/hyphen/underscore, mixed case
    Host,
    /// arbitrary octets
    Binary,
    /// small universe {a,b,c,www,example,com,...}, mixed case – produces shared suffixes
    Small,
}

const SMALL_LABELS: [&str; 12] = ["a", "b", "c", "www", "example", "com", "net", "Mail", "NS1", "x-y", "_tcp", "*"];

pub fn label(rng: &mut Rng, style: NameStyle, maxlen: usize) -> Vec<u8> {
    match style {
        NameStyle::Small => {
            let mut l = rng.pick(&SMALL_LABELS).as_bytes().to_vec();
            if rng.chance(1, 4) {
                for c in l.iter_mut() {
                    if rng.bool() {
                        *c = if c.is_ascii_lowercase() { c.to_ascii_uppercase() } else { c.to_ascii_lowercase() };
                    }
                }
            }
            l.truncate(maxlen.max(1));
            l
        }
        NameStyle::Host => {
            let n = match rng.below(10) {
                0 => maxlen.min(63),
                1 => 1,
                _ => rng.urange(1, maxlen.clamp(1, 12)),
            };
            const CH: &[u8] = b"abcdefghijklmnopqrstuvwxyzABCDEFGHIJKLMNOPQRSTUVWXYZ0123456789-_";
            (0..n).map(|_| *rng.pick(CH)).collect()
        }
        NameStyle::Binary => {
            let n = match rng.below(10) {
                0 => maxlen.min(63),
                1 => 1,
                _ => rng.urange(1, maxlen.clamp(1, 10)),
            };
            (0..n)
                .map(|_| match rng.below(4) {
                    0 => *rng.pick(&EDGE_BYTES),
                    1 => rng.u8(),
                    _ => *rng.pick(b"abcXYZ019-"),
                })
                .collect()
        }
    }
}

/// A name whose wire length is ≤ 255.
pub fn name(rng: &mut Rng, style: NameStyle) -> Labels {
    let nlabels = match rng.below(12) {
        0 => 0,
        1 => rng.urange(5, 12),
        2 => rng.urange(20, 127),
        _ => rng.urange(1, 4),
    };
    let mut out: Labels = Vec::new();
    let mut total = 1usize;
    for _ in 0..nlabels {
        let room = 255 - total;
        if room < 2 {
            break;
        }
        let maxlen = (room - 1).min(63);
        let l = label(rng, style, maxlen);
        let l = if l.len() > maxlen { l[..maxlen].to_vec() } else { l };
        total += l.len() + 1;
        out.push(l);
    }
    out
}

pub fn any_name(rng: &mut Rng) -> Labels {
    let style = match rng.below(6) {
        0 => NameStyle::Binary,
        1 | 2 => NameStyle::Host,
        _ => NameStyle::Small,
    };
    name(rng, style)
}

/// name of exactly `target` wire octets (target in 1..=255) using maximal labels
pub fn name_of_wire_len(rng: &mut Rng, target: usize) -> Labels {
    let mut out = Vec::new();
    let mut left = target - 1;
    while left > 0 {
        let l = (left - 1).min(63);
        if l == 0 {
            // cannot add an empty label: merge into previous
            if let Some(last) = out.last_mut() {
                let last: &mut Vec<u8> = last;
                if last.len() < 63 {
                    last.push(b'x');
                    left -= 1;
                    continue;
                }
            }
            break;
        }
        out.push((0..l).map(|_| *rng.pick(b"abcdefXYZ0")).collect());
        left -= l + 1;
    }
    out
}

// ---------------------------------------------------------------------------------------------
// RDATA schemas

#[derive(Clone, Copy, Debug, PartialEq, Eq)]
pub enum F {
    /// domain name that senders may compress (RFC 3597 §4 well-known types)
    NameC,
    /// domain name that must not be compressed
    NameNC,
    U8,
    U16,
    U32,
    U48,
    V4,
    V6,
    /// <character-string>
    CharStr,
    /// one or more <character-string> to the end
    CharStrs,
    /// opaque bytes to the end of RDATA (possibly empty)
    Rest,
    /// opaque bytes to the end, at least one
    Rest1,
    /// NSEC-style type bitmap to the end
    Bitmap,
    /// u8 length + bytes
    L8Bytes,
    /// u16 length + bytes
    L16Bytes,
    /// SVCB parameters to the end
    SvcParams,
    /// EDNS options to the end
    EdnsOpts,
    /// protocol field fixed to 3 (DNSKEY)
    Proto3,
    /// NSEC3 hash algorithm octet: 1 (SHA-1, the only one the decoder accepts) three times in four
    N3Alg,
    /// NSEC3 flags octet: 0 or 1 (opt-out) three times in four, else any
    N3Flags,
}

pub struct TypeInfo {
    pub code: u16,
    pub name: &'static str,
    pub schema: &'static [F],
}

use F::*;
pub const TYPES: &[TypeInfo] = &[
    TypeInfo { code: 1, name: "A", schema: &[V4] },
    TypeInfo { code: 2, name: "NS", schema: &[NameC] },
    TypeInfo { code: 5, name: "CNAME", schema: &[NameC] },
    TypeInfo { code: 6, name: "SOA", schema: &[NameC, NameC, U32, U32, U32, U32, U32] },
    TypeInfo { code: 10, name: "NULL", schema: &[Rest] },
    TypeInfo { code: 12, name: "PTR", schema: &[NameC] },
    TypeInfo { code: 13, name: "HINFO", schema: &[CharStr, CharStr] },
    TypeInfo { code: 15, name: "MX", schema: &[U16, NameC] },
    TypeInfo { code: 16, name: "TXT", schema: &[CharStrs] },
    TypeInfo { code: 24, name: "SIG", schema: &[U16, U8, U8, U32, U32, U32, U16, NameNC, Rest] },
    TypeInfo { code: 25, name: "KEY", schema: &[U16, U8, U8, Rest] },
    TypeInfo { code: 28, name: "AAAA", schema: &[V6] },
    TypeInfo { code: 33, name: "SRV", schema: &[U16, U16, U16, NameNC] },
    TypeInfo { code: 35, name: "NAPTR", schema: &[U16, U16, CharStr, CharStr, CharStr, NameNC] },
    TypeInfo { code: 37, name: "CERT", schema: &[U16, U16, U8, Rest] },
    TypeInfo { code: 41, name: "OPT", schema: &[EdnsOpts] },
    TypeInfo { code: 43, name: "DS", schema: &[U16, U8, U8, Rest] },
    TypeInfo { code: 44, name: "SSHFP", schema: &[U8, U8, Rest] },
    TypeInfo { code: 46, name: "RRSIG", schema: &[U16, U8, U8, U32, U32, U32, U16, NameNC, Rest] },
    TypeInfo { code: 47, name: "NSEC", schema: &[NameNC, Bitmap] },
    TypeInfo { code: 48, name: "DNSKEY", schema: &[U16, Proto3, U8, Rest] },
    TypeInfo { code: 50, name: "NSEC3", schema: &[N3Alg, N3Flags, U16, L8Bytes, L8Bytes, Bitmap] },
    TypeInfo { code: 51, name: "NSEC3PARAM", schema: &[N3Alg, N3Flags, U16, L8Bytes] },
    TypeInfo { code: 52, name: "TLSA", schema: &[U8, U8, U8, Rest] },
    TypeInfo { code: 53, name: "SMIMEA", schema: &[U8, U8, U8, Rest] },
    TypeInfo { code: 59, name: "CDS", schema: &[U16, U8, U8, Rest] },
    TypeInfo { code: 60, name: "CDNSKEY", schema: &[U16, Proto3, U8, Rest] },
    TypeInfo { code: 61, name: "OPENPGPKEY", schema: &[Rest] },
    TypeInfo { code: 62, name: "CSYNC", schema: &[U32, U16, Bitmap] },
    TypeInfo { code: 64, name: "SVCB", schema: &[U16, NameNC, SvcParams] },
    TypeInfo { code: 65, name: "HTTPS", schema: &[U16, NameNC, SvcParams] },
    TypeInfo { code: 250, name: "TSIG", schema: &[NameNC, U48, U16, L16Bytes, U16, U16, L16Bytes] },
    TypeInfo { code: 257, name: "CAA", schema: &[U8, L8Bytes, Rest] },
    TypeInfo { code: 65305, name: "ANAME", schema: &[NameC] },
];

pub fn type_info(code: u16) -> Option<&'static TypeInfo> {
    TYPES.iter().find(|t| t.code == code)
}

/// Types that are safe to put anywhere in a generic message (no pseudo-RRs)
pub const DATA_TYPES: &[u16] = &[
    1, 2, 5, 6, 10, 12, 13, 15, 16, 25, 28, 33, 35, 37, 43, 44, 46, 47, 48, 50, 51, 52, 53, 59, 60, 61, 62, 64, 65, 257, 65305,
];

fn charstr(rng: &mut Rng) -> Vec<u8> {
    let n = match rng.below(12) {
        0 => 0,
        1 => 255,
        _ => rng.urange(0, 20),
    };
    let mut v = vec![n as u8];
    for _ in 0..n {
        v.push(match rng.below(5) {
            0 => *rng.pick(&EDGE_BYTES),
            1 => *rng.pick(b"\"\\; ()\t@$"),
            _ => *rng.pick(b"abcdefghijklmnopqrstuvwxyzABC0123456789 ="),
        });
    }
    v
}

fn bitmap(rng: &mut Rng) -> Vec<u8> {
    // windows in ascending order, each 1..32 octets, last octet nonzero
    let mut out = Vec::new();
    let nwin = match rng.below(8) {
        0 => 0,
        1 => rng.urange(2, 4),
        _ => 1,
    };
    let mut win = 0u16;
    for i in 0..nwin {
        if i > 0 {
            win += rng.range(1, 60) as u16;
        } else if rng.chance(1, 6) {
            win = rng.range(1, 255) as u16;
        }
        if win > 255 {
            break;
        }
        let hi = if rng.chance(1, 8) { 32 } else { 8 };
        let len = rng.urange(1, hi);
        let mut bytes = rng.bytes(len);
        if rng.chance(2, 3) {
            for b in bytes.iter_mut() {
                *b &= rng.u8() & rng.u8();
            }
        }
        if *bytes.last().unwrap() == 0 {
            *bytes.last_mut().unwrap() = 1 << rng.below(8);
        }
        out.push(win as u8);
        out.push(len as u8);
        out.extend_from_slice(&bytes);
    }
    out
}

fn svc_params(rng: &mut Rng) -> Vec<u8> {
    // keys strictly ascending; values well-formed per RFC 9460 for known keys
    let mut out = Vec::new();
    let mut keys: Vec<u16> = Vec::new();
    for k in [0u16, 1, 2, 3, 4, 5, 6, 7, 8, 100, 65280, 65534] {
        if rng.chance(1, 4) {
            keys.push(k);
        }
    }
    // mandatory must not list itself and must list keys that are present
    for k in keys.clone() {
        let val: Vec<u8> = match k {
            0 => {
                let others: Vec<u16> = keys.iter().copied().filter(|x| *x != 0).collect();
                if others.is_empty() {
                    continue;
                }
                let mut v = Vec::new();
                for o in others.iter().take(rng.urange(1, others.len())) {
                    v.extend_from_slice(&o.to_be_bytes());
                }
                v
            }
            1 => {
                let mut v = Vec::new();
                for _ in 0..rng.urange(1, 3) {
                    let id = rng.pick(&[&b"h2"[..], b"h3", b"http/1.1", b"x,y", b"a\\b"]).to_vec();
                    v.push(id.len() as u8);
                    v.extend_from_slice(&id);
                }
                v
            }
            2 => Vec::new(),
            3 => rng.u16().to_be_bytes().to_vec(),
            4 => {
                let k = rng.urange(1, 3);
                rng.bytes(4 * k)
            }
            5 => rng.bytes_between(1, 40),
            6 => {
                let k = rng.urange(1, 2);
                rng.bytes(16 * k)
            }
            _ => rng.bytes_between(0, 12),
        };
        out.extend_from_slice(&k.to_be_bytes());
        out.extend_from_slice(&(val.len() as u16).to_be_bytes());
        out.extend_from_slice(&val);
    }
    out
}

fn edns_opts(rng: &mut Rng) -> Vec<u8> {
    let mut out = Vec::new();
    for _ in 0..rng.below(4) {
        let (code, val): (u16, Vec<u8>) = match rng.below(8) {
            0 => (3, rng.bytes_between(0, 16)), // NSID
            1 => (5, rng.bytes_between(0, 4)),  // DAU
            2 => (6, rng.bytes_between(0, 4)),
            3 => (7, rng.bytes_between(0, 4)),
            4 => {
                // client subnet
                let fam = if rng.bool() { 1u16 } else { 2 };
                let maxbits = if fam == 1 { 32 } else { 128 };
                let src = rng.range(0, maxbits) as u8;
                let nbytes = (src as usize).div_ceil(8);
                let mut addr = rng.bytes(nbytes);
                if src % 8 != 0 {
                    if let Some(l) = addr.last_mut() {
                        *l &= 0xffu8 << (8 - src % 8);
                    }
                }
                let mut v = fam.to_be_bytes().to_vec();
                v.push(src);
                v.push(0);
                v.extend_from_slice(&addr);
                (8, v)
            }
            5 => {
                let k = *rng.pick(&[8usize, 16, 24, 40]);
                (10, rng.bytes(k))
            }
            6 => (12, vec![0; rng.urange(0, 20)]),                  // padding
            _ => (rng.range(20, 65000) as u16, rng.bytes_between(0, 10)),
        };
        out.extend_from_slice(&code.to_be_bytes());
        out.extend_from_slice(&(val.len() as u16).to_be_bytes());
        out.extend_from_slice(&val);
    }
    out
}

// ---------------------------------------------------------------------------------------------
// wire builder with compression

pub struct WireBuilder {
    pub buf: Vec<u8>,
    /// (offset of a label start, the name suffix that starts there)
    pub label_starts: Vec<(usize, Labels)>,
    /// probability (out of 100) to compress a compressible name when a suffix is known
    pub compress_pct: u64,
}

impl WireBuilder {
    pub fn new(compress_pct: u64) -> Self {
        Self { buf: Vec::new(), label_starts: Vec::new(), compress_pct }
    }

    /// write a name; if `allow_ptr`, may replace the longest known (exact-case) suffix by a pointer
    pub fn name(&mut self, rng: &mut Rng, labels: &[Vec<u8>], allow_ptr: bool) {
        let mut i = 0;
        while i < labels.len() {
            if allow_ptr && rng.below(100) < self.compress_pct {
                let suffix = &labels[i..];
                if let Some((off, _)) = self.label_starts.iter().find(|(off, s)| *off < 0x4000 && s.as_slice() == suffix) {
                    let p = 0xC000u16 | *off as u16;
                    self.buf.extend_from_slice(&p.to_be_bytes());
                    return;
                }
            }
            let off = self.buf.len();
            if off < 0x4000 && self.label_starts.len() < 4000 {
                self.label_starts.push((off, labels[i..].to_vec()));
            }
            self.buf.push(labels[i].len() as u8);
            self.buf.extend_from_slice(&labels[i]);
            i += 1;
        }
        self.buf.push(0);
    }

    /// RDATA for `code` per schema, appended to buf (without the RDLENGTH prefix)
    pub fn rdata(&mut self, rng: &mut Rng, code: u16, names: &mut dyn FnMut(&mut Rng) -> Labels) {
        let schema: &[F] = type_info(code).map(|t| t.schema).unwrap_or(&[Rest]);
        for f in schema {
            match f {
                NameC => {
                    let n = names(rng);
                    self.name(rng, &n, true)
                }
                NameNC => {
                    let n = names(rng);
                    self.name(rng, &n, false)
                }
                U8 => self.buf.push(if rng.chance(1, 3) { *rng.pick(&[0u8, 1, 2, 3, 5, 8, 13, 15, 255]) } else { rng.u8() }),
                Proto3 => self.buf.push(3),
                N3Alg => self.buf.push(if rng.chance(3, 4) { 1 } else { rng.u8() }),
                N3Flags => self.buf.push(if rng.chance(3, 4) { rng.below(2) as u8 } else { rng.u8() }),
                U16 => {
                    let v = if rng.chance(1, 3) { *rng.pick(&[0u16, 1, 255, 256, 257, 65535]) } else { rng.u16() };
                    self.buf.extend_from_slice(&v.to_be_bytes())
                }
                U32 => {
                    let v = if rng.chance(1, 3) { *rng.pick(&[0u32, 1, 0x7fff_ffff, 0x8000_0000, 0xffff_ffff, 3600]) } else { rng.next_u32() };
                    self.buf.extend_from_slice(&v.to_be_bytes())
                }
                U48 => {
                    let v = rng.next_u64() >> 16;
                    self.buf.extend_from_slice(&v.to_be_bytes()[2..])
                }
                V4 => self.buf.extend_from_slice(&rng.bytes(4)),
                V6 => self.buf.extend_from_slice(&rng.bytes(16)),
                CharStr => self.buf.extend_from_slice(&charstr(rng)),
                CharStrs => {
                    for _ in 0..rng.urange(1, 4) {
                        self.buf.extend_from_slice(&charstr(rng));
                    }
                }
                Rest => {
                    let n = match rng.below(10) {
                        0 => 0,
                        1 => rng.urange(100, 600),
                        _ => rng.urange(1, 40),
                    };
                    self.buf.extend_from_slice(&rng.bytes(n))
                }
                Rest1 => {
                    let n = rng.urange(1, 40);
                    self.buf.extend_from_slice(&rng.bytes(n))
                }
                Bitmap => self.buf.extend_from_slice(&bitmap(rng)),
                L8Bytes => {
                    let n = if rng.chance(1, 10) { 255 } else { rng.urange(0, 20) };
                    self.buf.push(n as u8);
                    self.buf.extend_from_slice(&rng.bytes(n));
                }
                L16Bytes => {
                    let n = rng.urange(0, 40);
                    self.buf.extend_from_slice(&(n as u16).to_be_bytes());
                    self.buf.extend_from_slice(&rng.bytes(n));
                }
                SvcParams => self.buf.extend_from_slice(&svc_params(rng)),
                EdnsOpts => self.buf.extend_from_slice(&edns_opts(rng)),
            }
        }
    }

    /// whole record; returns (start, rdata_off, end)
    pub fn record(
        &mut self,
        rng: &mut Rng,
        owner: &[Vec<u8>],
        code: u16,
        class: u16,
        ttl: u32,
        names: &mut dyn FnMut(&mut Rng) -> Labels,
    ) -> (usize, usize, usize) {
        let start = self.buf.len();
        self.name(rng, owner, true);
        self.buf.extend_from_slice(&code.to_be_bytes());
        self.buf.extend_from_slice(&class.to_be_bytes());
        self.buf.extend_from_slice(&ttl.to_be_bytes());
        let lenpos = self.buf.len();
        self.buf.extend_from_slice(&[0, 0]);
        let rd = self.buf.len();
        self.rdata(rng, code, names);
        let mut rdlen = self.buf.len() - rd;
        if rdlen > 65535 {
            self.buf.truncate(rd + 65535);
            rdlen = 65535;
        }
        self.buf[lenpos..lenpos + 2].copy_from_slice(&(rdlen as u16).to_be_bytes());
        (start, rd, self.buf.len())
    }
}

#[derive(Clone, Debug)]
pub struct MsgOpts {
    pub max_records: usize,
    pub with_opt: bool,
    pub with_tsig: bool,
    pub types: Option<Vec<u16>>,
    pub response: Option<bool>,
}

impl Default for MsgOpts {
    fn default() -> Self {
        Self { max_records: 8, with_opt: false, with_tsig: false, types: None, response: None }
    }
}

/// A well-formed wire message: header, 0..2 questions, records of random types in the three
/// sections, optional OPT (additional) and TSIG (last additional). Names come from a small pool
/// so suffixes are shared and compression is exercised.
pub fn message_wire(rng: &mut Rng, opts: &MsgOpts) -> Vec<u8> {
    let style = match rng.below(8) {
        0 => NameStyle::Binary,
        1 | 2 => NameStyle::Host,
        _ => NameStyle::Small,
    };
    let mut pool: Vec<Labels> = (0..rng.urange(1, 5)).map(|_| name(rng, style)).collect();
    // derive children / case variants so that suffix sharing happens
    for _ in 0..rng.urange(0, 4) {
        let mut base = rng.pick(&pool).clone();
        if rng.bool() && (refwire::WName { labels: base.clone(), pointers: 0, targets: vec![] }).wire_len() < 200 {
            base.insert(0, label(rng, style, 20));
        } else if !base.is_empty() {
            let i = rng.usize_below(base.len());
            for c in base[i].iter_mut() {
                if rng.bool() {
                    *c = if c.is_ascii_lowercase() { c.to_ascii_uppercase() } else { c.to_ascii_lowercase() };
                }
            }
        }
        pool.push(base);
    }
    let mut pick_name = {
        let pool = pool.clone();
        move |rng: &mut Rng| -> Labels {
            if rng.chance(1, 10) {
                any_name(rng)
            } else {
                rng.pick(&pool).clone()
            }
        }
    };

    let mut w = WireBuilder::new(match rng.below(4) {
        0 => 0,
        1 => 100,
        _ => 70,
    });
    let qd = match rng.below(10) {
        0 => 0u16,
        1 => 2,
        _ => 1,
    };
    let counts = {
        let total = rng.urange(0, opts.max_records);
        let a = rng.urange(0, total);
        let b = rng.urange(0, total - a);
        [a, b, total - a - b]
    };
    let mut flags: u16 = rng.u16();
    // clear Z bit (reserved) so round trips are meaningful; opcode from a small set
    flags &= !0x0040;
    let opcode = *rng.pick(&[0u16, 0, 0, 0, 2, 4, 5]);
    flags = (flags & !0x7800) | (opcode << 11);
    if let Some(r) = opts.response {
        flags = if r { flags | 0x8000 } else { flags & !0x8000 };
    }
    let with_opt = opts.with_opt;
    let with_tsig = opts.with_tsig;
    let ar = counts[2] + with_opt as usize + with_tsig as usize;
    let h = WHeader { id: rng.u16(), flags, qd, an: counts[0] as u16, ns: counts[1] as u16, ar: ar as u16 };
    refwire::put_header(&mut w.buf, &h);
    for _ in 0..qd {
        let n = pick_name(rng);
        w.name(rng, &n, true);
        let qt = if rng.chance(1, 5) { *rng.pick(&[255u16, 252, 251]) } else { *rng.pick(DATA_TYPES) };
        w.buf.extend_from_slice(&qt.to_be_bytes());
        w.buf.extend_from_slice(&(if rng.chance(1, 10) { *rng.pick(&[3u16, 4, 254, 255]) } else { 1 }).to_be_bytes());
    }
    let types: Vec<u16> = opts.types.clone().unwrap_or_else(|| DATA_TYPES.to_vec());
    for (si, n) in counts.iter().enumerate() {
        for _ in 0..*n {
            let owner = pick_name(rng);
            let code = if rng.chance(1, 30) { rng.range(258, 60000) as u16 } else { *rng.pick(&types) };
            let class = if rng.chance(1, 20) { *rng.pick(&[3u16, 4, 254, 255]) } else { 1 };
            let ttl = if rng.chance(1, 4) { *rng.pick(&[0u32, 1, 0x7fff_ffff, 0xffff_ffff]) } else { rng.range(0, 86400) as u32 };
            w.record(rng, &owner, code, class, ttl, &mut pick_name);
        }
        if si == 2 {
            if with_opt {
                // OPT: root owner, class = payload, ttl = ext-rcode|version|flags
                let payload = *rng.pick(&[512u16, 1232, 4096, 65535, 0]);
                let ext_rcode = if rng.chance(1, 3) { rng.u8() } else { 0 };
                let do_bit = if rng.bool() { 0x8000u32 } else { 0 };
                let ttl = ((ext_rcode as u32) << 24) | do_bit;
                w.record(rng, &[], 41, payload, ttl, &mut pick_name);
            }
            if with_tsig {
                let owner = pick_name(rng);
                w.record(rng, &owner, 250, 255, 0, &mut pick_name);
            }
        }
    }
    w.buf
}

// ---------------------------------------------------------------------------------------------
// mutators

pub const BOUNDARY: [u8; 10] = [0x00, 0x01, 0x3f, 0x40, 0x7f, 0x80, 0xbf, 0xc0, 0xc1, 0xff];

/// Structure-aware mutation of a wire message. `spans` are interesting offsets (from refwire).
pub fn mutate(rng: &mut Rng, input: &[u8], interesting: &[usize]) -> Vec<u8> {
    let mut b = input.to_vec();
    if b.is_empty() {
        return rng.bytes_between(0, 20);
    }
    let n = 1 + rng.below(3);
    for _ in 0..n {
        let pos = if !interesting.is_empty() && rng.chance(2, 3) {
            let p = *rng.pick(interesting) + rng.usize_below(3);
            p.min(b.len() - 1)
        } else {
            rng.usize_below(b.len())
        };
        match rng.below(12) {
            0 => b[pos] ^= 1 << rng.below(8),
            1 => b[pos] = *rng.pick(&BOUNDARY),
            2 => b[pos] = rng.u8(),
            3 => {
                b.truncate(pos);
                if b.is_empty() {
                    break;
                }
            }
            4 => {
                // compression pointer to somewhere
                let t = match rng.below(4) {
                    0 => pos as u16,                       // self
                    1 => (pos as u16).wrapping_add(2),     // forward
                    2 => rng.below(pos as u64 + 1) as u16, // backward
                    _ => rng.u16() & 0x3fff,
                };
                let p = 0xC000 | (t & 0x3fff);
                b[pos] = (p >> 8) as u8;
                if pos + 1 < b.len() {
                    b[pos + 1] = p as u8;
                }
            }
            5 => {
                // header count edits
                if b.len() >= 12 {
                    let f = 4 + 2 * rng.usize_below(4);
                    let v = *rng.pick(&[0u16, 1, 2, 255, 65535]);
                    b[f..f + 2].copy_from_slice(&v.to_be_bytes());
                }
            }
            6 => {
                // insert bytes
                let ins = rng.bytes_between(1, 8);
                let at = pos;
                b.splice(at..at, ins);
            }
            7 => {
                // delete bytes
                let end = (pos + rng.urange(1, 8)).min(b.len());
                b.drain(pos..end);
                if b.is_empty() {
                    break;
                }
            }
            8 => {
                // splice a chunk from elsewhere
                let from = rng.usize_below(b.len());
                let len = rng.urange(1, 16).min(b.len() - from);
                let chunk = b[from..from + len].to_vec();
                let end = (pos + len).min(b.len());
                b.splice(pos..end, chunk);
            }
            9 => {
                // 16-bit field edit (RDLENGTH / counts / types)
                if pos + 1 < b.len() {
                    let v = match rng.below(4) {
                        0 => 0u16,
                        1 => 0xffff,
                        2 => u16::from_be_bytes([b[pos], b[pos + 1]]).wrapping_add(1),
                        _ => u16::from_be_bytes([b[pos], b[pos + 1]]).wrapping_sub(1),
                    };
                    b[pos..pos + 2].copy_from_slice(&v.to_be_bytes());
                }
            }
            10 => {
                // append garbage
                let extra = rng.bytes_between(1, 12);
                b.extend_from_slice(&extra);
            }
            _ => {
                // set a label length
                b[pos] = *rng.pick(&[0u8, 1, 62, 63, 64, 65, 127, 128, 191, 192]);
            }
        }
    }
    if b.len() > 65535 {
        b.truncate(65535);
    }
    b
}

/// offsets of structural interest in a valid message
pub fn interesting_offsets(b: &[u8]) -> Vec<usize> {
    let mut v = vec![0, 2, 4, 6, 8, 10, 12];
    if let Ok(m) = refwire::walk(b) {
        v.push(m.question_end);
        for r in m.all_records() {
            v.push(r.start);
            v.push(r.rdata_off.saturating_sub(2));
            v.push(r.rdata_off.saturating_sub(10));
            v.push(r.rdata_off);
            v.push(r.end.saturating_sub(1));
        }
    }
    v.retain(|o| *o < b.len());
    v
}
