//! The honest upstream: an emulation of a perfect DNSSEC-aware recursive resolver over the
//! configured hierarchy. For (qname, qtype, DO) it picks the responsible zone (parent side for DS),
//! computes the answer with RefAuth, follows CNAMEs across zones, attaches RRSIGs made by the
//! reference signer (ring directly) and NSEC / NSEC3 denial per RFC 4035 §3.1.3 / RFC 5155 §7.2.
//! Nothing in here uses hickory.
#![allow(dead_code)]

use std::collections::{HashMap, HashSet};
use std::sync::Mutex;

use serde_json::{json, Value};
use vh::mon::{hex, unhex};

use crate::chain::{self, Nsec, Nsec3};
use crate::hier::{canon, Key, Truth};
use crate::refsign::{self, SigFields};
use crate::refzone::{self, canonical_cmp, child, fold, is_subdomain, ref_auth, show, suffix, ty, wildcard_of, Kind, Name};

pub const SEC_AN: u8 = 0;
pub const SEC_NS: u8 = 1;
pub const SEC_AR: u8 = 2;

#[derive(Clone, Debug, PartialEq, Eq, Hash)]
pub struct Rec {
    pub sec: u8,
    pub owner: Name,
    pub rtype: u16,
    pub class: u16,
    pub ttl: u32,
    pub rdata: Vec<u8>,
}

impl Rec {
    pub fn to_json(&self) -> Value {
        json!([self.sec, show(&self.owner), self.rtype, self.class, self.ttl, hex(&self.rdata)])
    }
    pub fn from_json(v: &Value) -> Option<Rec> {
        Some(Rec {
            sec: v[0].as_u64()? as u8,
            owner: refzone::name(v[1].as_str()?),
            rtype: v[2].as_u64()? as u16,
            class: v[3].as_u64()? as u16,
            ttl: v[4].as_u64()? as u32,
            rdata: unhex(v[5].as_str()?),
        })
    }
    /// for RRSIG records: the type covered
    pub fn covered(&self) -> Option<u16> {
        if self.rtype == ty::RRSIG && self.rdata.len() >= 2 {
            Some(u16::from_be_bytes([self.rdata[0], self.rdata[1]]))
        } else {
            None
        }
    }
    pub fn is_denial(&self) -> bool {
        matches!(self.rtype, chain::T_NSEC | chain::T_NSEC3) || matches!(self.covered(), Some(chain::T_NSEC) | Some(chain::T_NSEC3))
    }
}

#[derive(Clone, Debug, PartialEq, Eq)]
pub struct Resp {
    pub rcode: u8,
    pub aa: bool,
    pub recs: Vec<Rec>,
    /// what RefAuth said about the (last) name: for statistics and fault classification
    pub kind: String,
}

impl Resp {
    pub fn section(&self, s: u8) -> Vec<&Rec> {
        self.recs.iter().filter(|r| r.sec == s).collect()
    }
    pub fn to_json(&self) -> Value {
        json!({"rcode": self.rcode, "aa": self.aa, "kind": self.kind, "recs": self.recs.iter().map(|r| r.to_json()).collect::<Vec<_>>()})
    }
    pub fn from_json(v: &Value) -> Option<Resp> {
        Some(Resp {
            rcode: v["rcode"].as_u64()? as u8,
            aa: v["aa"].as_bool().unwrap_or(false),
            kind: v["kind"].as_str().unwrap_or("").to_string(),
            recs: v["recs"].as_array()?.iter().filter_map(Rec::from_json).collect(),
        })
    }
    pub fn is_negative(&self) -> bool {
        self.section(SEC_AN).is_empty()
    }
}

/// Who signs: the zone's own keys, or a substitute key set (the attacker's) under the zone's name.
pub struct SignerKeys<'a> {
    pub apex: &'a Name,
    pub keys: &'a [Key],
}

pub fn rrsig_rdata(f: &SigFields, sig: &[u8]) -> Vec<u8> {
    let mut v = refsign::rrsig_rdata_prefix(f);
    v.extend_from_slice(sig);
    v
}

/// RRSIG records over one RRset by every active key of `signer` (keyset-signing keys for DNSKEY,
/// data-signing keys otherwise). `owner` is the presented owner; `wild_labels` the Labels field for
/// wildcard-expanded RRsets.
pub fn make_rrsigs(signer: &SignerKeys<'_>, owner: &Name, rtype: u16, ttl: u32, rdatas: &[Vec<u8>], wild_labels: Option<u8>, inception: u32, expiration: u32) -> Vec<Vec<u8>> {
    let mut out = Vec::new();
    for k in signer.keys.iter().filter(|k| if rtype == ty::DNSKEY { k.spec.signs_keyset } else { k.spec.signs_data }) {
        let labels = wild_labels.unwrap_or(refsign::label_count(owner) as u8);
        let f = SigFields { type_covered: rtype, algorithm: k.spec.alg, labels, original_ttl: ttl, expiration, inception, key_tag: k.tag, signer: signer.apex.clone() };
        let Ok(data) = refsign::signed_data(owner, 1, &f, rdatas) else { continue };
        out.push(rrsig_rdata(&f, &k.sign(&data)));
    }
    out
}

pub struct World {
    pub truth: Truth,
    /// honest RRSIG RDATA per (zone, canonical signing owner, type): made once so that ECDSA's random
    /// nonces do not make two presentations of the same RRset differ
    sig_cache: Mutex<HashMap<(usize, Name, u16), Vec<Vec<u8>>>>,
    /// every RRSIG the honest signer ever produced: (folded owner, canonical RRSIG RDATA)
    pub genuine_sigs: Mutex<HashSet<(Name, Vec<u8>)>>,
    resp_cache: Mutex<HashMap<(Name, u16, bool), Resp>>,
    auth_cache: Mutex<HashMap<(usize, Name, u16, bool), Resp>>,
    verified_sigs: Mutex<HashMap<(Name, Vec<u8>), bool>>,
}

const TTL_DATA: u32 = 3600;
const TTL_NEG: u32 = 300;

impl World {
    pub fn new(truth: Truth) -> World {
        World { truth, sig_cache: Mutex::new(HashMap::new()), genuine_sigs: Mutex::new(HashSet::new()), resp_cache: Mutex::new(HashMap::new()), auth_cache: Mutex::new(HashMap::new()), verified_sigs: Mutex::new(HashMap::new()) }
    }

    fn ttl_of(t: u16) -> u32 {
        if matches!(t, chain::T_NSEC | chain::T_NSEC3) {
            TTL_NEG
        } else {
            TTL_DATA
        }
    }

    /// honest RRSIGs (as RDATA) over an RRset of zone `zi`
    pub fn sigs_for(&self, zi: usize, owner: &Name, rtype: u16, rdatas: &[Vec<u8>], wild_labels: Option<u8>) -> Vec<Vec<u8>> {
        let z = &self.truth.zones[zi];
        if !z.spec.signed {
            return Vec::new();
        }
        let sign_name: Name = match wild_labels {
            Some(l) if (l as usize) < refsign::label_count(owner) => wildcard_of(&suffix(owner, l as usize)),
            _ => fold(owner),
        };
        let key = (zi, sign_name, rtype);
        if let Some(v) = self.sig_cache.lock().unwrap().get(&key) {
            let mut g = self.genuine_sigs.lock().unwrap();
            for s in v {
                g.insert((fold(owner), canon(ty::RRSIG, s)));
            }
            return v.clone();
        }
        let h = &self.truth.hier;
        let v = make_rrsigs(&SignerKeys { apex: &z.apex, keys: &z.keys }, owner, rtype, Self::ttl_of(rtype), rdatas, wild_labels, h.inception, h.expiration);
        let mut g = self.genuine_sigs.lock().unwrap();
        for s in &v {
            g.insert((fold(owner), canon(ty::RRSIG, s)));
        }
        self.sig_cache.lock().unwrap().insert(key, v.clone());
        v
    }

    /// Is this RRSIG one the zone's own keys made over the genuine RRset? Fast path: the honest signer
    /// produced exactly these bytes in this process. Otherwise (a witness replays records of an
    /// earlier process; ECDSA signatures differ from run to run) it is verified with ring against the
    /// zone's real public keys over the ground-truth RRset.
    pub fn is_genuine_sig(&self, owner: &[Vec<u8>], rrsig_rdata: &[u8]) -> bool {
        let key = (fold(owner), canon(ty::RRSIG, rrsig_rdata));
        if self.genuine_sigs.lock().unwrap().contains(&key) {
            return true;
        }
        if let Some(v) = self.verified_sigs.lock().unwrap().get(&key) {
            return *v;
        }
        let v = self.verify_sig(&key.0, rrsig_rdata);
        self.verified_sigs.lock().unwrap().insert(key, v);
        v
    }

    fn verify_sig(&self, owner: &Name, rd: &[u8]) -> bool {
        if rd.len() < 19 {
            return false;
        }
        let Some((signer, off)) = refzone::read_wire_name(rd, 18) else { return false };
        let f = SigFields {
            type_covered: u16::from_be_bytes([rd[0], rd[1]]),
            algorithm: rd[2],
            labels: rd[3],
            original_ttl: u32::from_be_bytes([rd[4], rd[5], rd[6], rd[7]]),
            expiration: u32::from_be_bytes([rd[8], rd[9], rd[10], rd[11]]),
            inception: u32::from_be_bytes([rd[12], rd[13], rd[14], rd[15]]),
            key_tag: u16::from_be_bytes([rd[16], rd[17]]),
            signer: signer.clone(),
        };
        let sig = &rd[off..];
        let Some((zi, z)) = self.truth.zones.iter().enumerate().find(|(_, z)| z.apex == signer) else { return false };
        if !z.spec.signed || !is_subdomain(owner, &z.apex) {
            return false;
        }
        let h = &self.truth.hier;
        if f.inception != h.inception || f.expiration != h.expiration {
            return false;
        }
        for (gz, set) in self.truth.genuine(owner, f.type_covered) {
            if gz != zi {
                continue;
            }
            let rdatas: Vec<Vec<u8>> = set.into_iter().collect();
            let Ok(data) = refsign::signed_data(owner, 1, &f, &rdatas) else { continue };
            for k in z.keys.iter().filter(|k| k.spec.publish && k.spec.alg == f.algorithm && k.tag == f.key_tag && if f.type_covered == ty::DNSKEY { k.spec.signs_keyset } else { k.spec.signs_data }) {
                let ok = match &k.signer {
                    Some(_) => refsign::verify(k.spec.alg, &k.public, &data, sig),
                    None => k.sign(&data) == sig,
                };
                if ok {
                    return true;
                }
            }
        }
        false
    }

    /// push an RRset and (if `dnssec`) its RRSIGs into a section
    fn push_rrset(&self, out: &mut Vec<Rec>, sec: u8, zi: usize, owner: &Name, rtype: u16, rdatas: &[Vec<u8>], wild_labels: Option<u8>, dnssec: bool) {
        let ttl = Self::ttl_of(rtype);
        for rd in rdatas {
            out.push(Rec { sec, owner: owner.clone(), rtype, class: 1, ttl, rdata: rd.clone() });
        }
        if dnssec {
            for s in self.sigs_for(zi, owner, rtype, rdatas, wild_labels) {
                out.push(Rec { sec, owner: owner.clone(), rtype: ty::RRSIG, class: 1, ttl, rdata: s });
            }
        }
    }

    // ---- denial ------------------------------------------------------------------------------

    fn nsec_matching(&self, zi: usize, n: &Name) -> Option<&Nsec> {
        self.truth.zones[zi].nsec.iter().find(|x| x.owner == *n)
    }

    fn nsec_covering(&self, zi: usize, n: &Name) -> Option<&Nsec> {
        let chain = &self.truth.zones[zi].nsec;
        let last = chain.len().checked_sub(1)?;
        chain.iter().enumerate().find(|(i, x)| {
            canonical_cmp(&x.owner, n) == std::cmp::Ordering::Less && (*i == last || canonical_cmp(n, &x.next) == std::cmp::Ordering::Less)
        }).map(|(_, x)| x)
    }

    fn nsec3_matching(&self, zi: usize, n: &Name) -> Option<&Nsec3> {
        let z = &self.truth.zones[zi];
        let p = z.spec.nsec3.as_ref()?;
        let h = chain::nsec3_hash(n, &p.salt, p.iterations);
        z.nsec3.iter().find(|x| x.hash == h)
    }

    fn nsec3_covering(&self, zi: usize, n: &Name) -> Option<&Nsec3> {
        let z = &self.truth.zones[zi];
        let p = z.spec.nsec3.as_ref()?;
        let h = chain::nsec3_hash(n, &p.salt, p.iterations);
        z.nsec3.iter().find(|x| if x.hash < x.next { x.hash < h && h < x.next } else { h > x.hash || h < x.next })
    }

    /// RFC 4035 §3.1.3 / RFC 5155 §7.2 proof records for the outcome `kind` of (q, t) in zone `zi`
    fn denial_records(&self, zi: usize, q: &Name, t: u16, kind: Kind, ce: Option<&Name>, source: Option<&Name>) -> Vec<(Name, u16, Vec<u8>)> {
        let z = &self.truth.zones[zi];
        let mut out: Vec<(Name, u16, Vec<u8>)> = Vec::new();
        let mut push = |r: (Name, u16, Vec<u8>)| {
            if !out.contains(&r) {
                out.push(r)
            }
        };
        if let Some(p) = &z.spec.nsec3 {
            let rec = |n: &Nsec3| (chain::nsec3_owner(n, &z.apex), chain::T_NSEC3, chain::nsec3_rdata(n, p));
            // closest encloser among the names that have an NSEC3 record, and the next closer name
            let provable_ce = |q: &Name| -> (Name, Name) {
                let mut k = q.len();
                while k > z.apex.len() {
                    let cand = suffix(q, k);
                    if k < q.len() && self.nsec3_matching(zi, &cand).is_some() {
                        return (cand, suffix(q, k + 1));
                    }
                    k -= 1;
                }
                (z.apex.clone(), suffix(q, z.apex.len() + 1))
            };
            match kind {
                Kind::Nodata | Kind::EntNodata => {
                    if let Some(m) = self.nsec3_matching(zi, q) {
                        push(rec(m));
                    } else {
                        // opt-out: no NSEC3 for the (insecure) delegation: closest provable encloser proof
                        let (ce, nc) = provable_ce(q);
                        if let Some(m) = self.nsec3_matching(zi, &ce) {
                            push(rec(m));
                        }
                        if let Some(c) = self.nsec3_covering(zi, &nc) {
                            push(rec(c));
                        }
                    }
                }
                Kind::Nxdomain | Kind::WildcardNodata | Kind::WildcardAnswer | Kind::WildcardCname => {
                    let (pce, nc) = provable_ce(q);
                    let ce = ce.cloned().unwrap_or(pce);
                    let nc = if ce.len() < q.len() { suffix(q, ce.len() + 1) } else { nc };
                    if kind != Kind::WildcardAnswer && kind != Kind::WildcardCname {
                        if let Some(m) = self.nsec3_matching(zi, &ce) {
                            push(rec(m));
                        }
                    }
                    if let Some(c) = self.nsec3_covering(zi, &nc) {
                        push(rec(c));
                    }
                    match kind {
                        Kind::Nxdomain => {
                            if let Some(c) = self.nsec3_covering(zi, &wildcard_of(&ce)) {
                                push(rec(c));
                            }
                        }
                        Kind::WildcardNodata => {
                            if let Some(m) = self.nsec3_matching(zi, &source.cloned().unwrap_or_else(|| wildcard_of(&ce))) {
                                push(rec(m));
                            }
                        }
                        _ => {}
                    }
                }
                _ => {}
            }
        } else {
            let rec = |n: &Nsec| (n.owner.clone(), chain::T_NSEC, chain::nsec_rdata(n));
            match kind {
                Kind::Nodata => {
                    if let Some(m) = self.nsec_matching(zi, q) {
                        push(rec(m));
                    }
                }
                Kind::EntNodata | Kind::WildcardAnswer | Kind::WildcardCname => {
                    if let Some(c) = self.nsec_covering(zi, q) {
                        push(rec(c));
                    }
                }
                Kind::Nxdomain => {
                    if let Some(c) = self.nsec_covering(zi, q) {
                        push(rec(c));
                    }
                    let w = wildcard_of(&ce.cloned().unwrap_or_else(|| z.full.closest_encloser(q)));
                    if let Some(c) = self.nsec_covering(zi, &w) {
                        push(rec(c));
                    }
                }
                Kind::WildcardNodata => {
                    let w = source.cloned().unwrap_or_else(|| wildcard_of(&z.full.closest_encloser(q)));
                    if let Some(m) = self.nsec_matching(zi, &w) {
                        push(rec(m));
                    } else if let Some(c) = self.nsec_covering(zi, &w) {
                        push(rec(c)); // wildcard is an empty non-terminal
                    }
                    if let Some(c) = self.nsec_covering(zi, q) {
                        push(rec(c));
                    }
                }
                _ => {}
            }
        }
        let _ = t;
        out
    }

    // ---- material for replay attacks (all genuine, all obtainable by an on-path attacker) ----------

    /// parent zone's SOA plus its NSEC / NSEC3 *matching the delegation point* `cut` (NS [DS] bits,
    /// no SOA bit), with their genuine RRSIGs. With `clear_ds` the DS bit is removed from the bitmap
    /// (an alteration: the genuine RRSIG no longer fits).
    pub fn parent_side_denial(&self, parent: usize, cut: &Name, clear_ds: bool) -> Vec<Rec> {
        let z = &self.truth.zones[parent];
        let mut out = Vec::new();
        if !z.spec.signed {
            return out;
        }
        let soa: Vec<Vec<u8>> = z.full.rrset(&z.apex, ty::SOA).cloned().unwrap_or_default();
        self.push_rrset(&mut out, SEC_NS, parent, &z.apex, ty::SOA, &soa, None, true);
        if let Some(p) = &z.spec.nsec3 {
            if let Some(m) = self.nsec3_matching(parent, cut) {
                let owner = chain::nsec3_owner(m, &z.apex);
                let genuine = chain::nsec3_rdata(m, p);
                let sigs = self.sigs_for(parent, &owner, chain::T_NSEC3, &[genuine.clone()], None);
                let mut m2 = m.clone();
                if clear_ds {
                    m2.types.remove(&ty::DS);
                }
                out.push(Rec { sec: SEC_NS, owner: owner.clone(), rtype: chain::T_NSEC3, class: 1, ttl: TTL_NEG, rdata: chain::nsec3_rdata(&m2, p) });
                for s in sigs {
                    out.push(Rec { sec: SEC_NS, owner: owner.clone(), rtype: ty::RRSIG, class: 1, ttl: TTL_NEG, rdata: s });
                }
            }
        } else if let Some(m) = self.nsec_matching(parent, cut) {
            let genuine = chain::nsec_rdata(m);
            let sigs = self.sigs_for(parent, &m.owner, chain::T_NSEC, &[genuine], None);
            let mut m2 = m.clone();
            if clear_ds {
                m2.types.remove(&ty::DS);
            }
            out.push(Rec { sec: SEC_NS, owner: m.owner.clone(), rtype: chain::T_NSEC, class: 1, ttl: TTL_NEG, rdata: chain::nsec_rdata(&m2) });
            for s in sigs {
                out.push(Rec { sec: SEC_NS, owner: m.owner.clone(), rtype: ty::RRSIG, class: 1, ttl: TTL_NEG, rdata: s });
            }
        }
        out
    }

    /// "ancestor delegation" name-error material: the parent's records that would prove, *in the
    /// parent zone*, that `q` (a name below the delegation `cut`) does not exist.
    pub fn ancestor_nxdomain(&self, parent: usize, cut: &Name, q: &Name) -> Vec<Rec> {
        let z = &self.truth.zones[parent];
        let mut out = self.parent_side_denial(parent, cut, false);
        if let Some(p) = &z.spec.nsec3 {
            let next_closer = suffix(q, (cut.len() + 1).min(q.len()));
            for n in [next_closer, wildcard_of(cut)] {
                if let Some(c) = self.nsec3_covering(parent, &n) {
                    let owner = chain::nsec3_owner(c, &z.apex);
                    if out.iter().any(|r| r.owner == owner && r.rtype == chain::T_NSEC3) {
                        continue;
                    }
                    self.push_rrset(&mut out, SEC_NS, parent, &owner, chain::T_NSEC3, &[chain::nsec3_rdata(c, p)], None, true);
                }
            }
        }
        out
    }

    // ---- the resolver emulation -----------------------------------------------------------------

    /// The honest answer of a perfect recursive resolver to (qname, qtype) with / without DO.
    pub fn honest(&self, qname: &[Vec<u8>], qtype: u16, dnssec: bool) -> Resp {
        let key = (fold(qname), qtype, dnssec);
        if let Some(r) = self.resp_cache.lock().unwrap().get(&key) {
            return r.clone();
        }
        let r = self.honest_uncached(&key.0, qtype, dnssec);
        self.resp_cache.lock().unwrap().insert(key, r.clone());
        r
    }

    fn honest_uncached(&self, qname: &Name, qtype: u16, dnssec: bool) -> Resp {
        if !self.truth.under_anchor(qname) {
            // anchored-island worlds only (the top zone of every other world is the root): the upstream
            // serves the anchored zone and what hangs below it, nothing else; like an authoritative-only
            // server (and a forwarder in front of one) it answers REFUSED for names outside
            return Resp { rcode: 5, aa: false, recs: Vec::new(), kind: "refused".into() };
        }
        let mut recs: Vec<Rec> = Vec::new();
        let mut cur = qname.clone();
        let mut rcode = 0u8;
        let mut kind_label = String::new();
        let mut visited: Vec<Name> = vec![cur.clone()];
        for hop in 0..8 {
            let zi = self.truth.responsible(&cur, qtype);
            let z = &self.truth.zones[zi];
            let signed = z.spec.signed && dnssec;
            let o = ref_auth(&z.full, &cur, qtype);
            if hop == 0 {
                kind_label = o.kind.as_str().to_string();
                if let Some(ce) = o.chain_end {
                    kind_label = format!("{}>{}", kind_label, ce.as_str());
                }
            }
            // answer section: every step that contributed records
            let mut next: Option<Name> = None;
            let mut last_negative: Option<&refzone::Step> = None;
            for st in &o.steps {
                let wild = st.kind.is_wildcard();
                let wl = if wild { st.closest_encloser.as_ref().map(|ce| ce.len() as u8) } else { None };
                match st.kind {
                    Kind::Answer | Kind::WildcardAnswer => {
                        let rds: Vec<Vec<u8>> = st.rrs.iter().map(|r| r.2.clone()).collect();
                        let t = st.rrs[0].1;
                        if qtype == ty::ANY {
                            // not generated by this check
                        }
                        self.push_rrset(&mut recs, SEC_AN, zi, &st.qname, t, &rds, wl, signed);
                    }
                    Kind::CnameChain | Kind::WildcardCname => {
                        let rds: Vec<Vec<u8>> = st.rrs.iter().map(|r| r.2.clone()).collect();
                        self.push_rrset(&mut recs, SEC_AN, zi, &st.qname, ty::CNAME, &rds, wl, signed);
                    }
                    _ => {}
                }
                if wild && signed && matches!(st.kind, Kind::WildcardAnswer | Kind::WildcardCname) {
                    for (o2, t2, rd2) in self.denial_records(zi, &st.qname, qtype, st.kind, st.closest_encloser.as_ref(), st.source.as_ref()) {
                        self.push_rrset(&mut recs, SEC_NS, zi, &o2, t2, &[rd2], None, true);
                    }
                }
                if st.kind.is_negative() {
                    last_negative = Some(st);
                }
            }
            if let Some(st) = last_negative {
                // SOA + denial of the zone that gave the negative answer
                if st.kind == Kind::Nxdomain {
                    rcode = 3;
                }
                let soa: Vec<Vec<u8>> = z.full.rrset(&z.apex, ty::SOA).cloned().unwrap_or_default();
                let mut soa_recs = Vec::new();
                self.push_rrset(&mut soa_recs, SEC_NS, zi, &z.apex, ty::SOA, &soa, None, signed);
                for r in soa_recs.iter_mut() {
                    r.ttl = r.ttl.min(TTL_NEG);
                }
                recs.extend(soa_recs);
                if signed {
                    for (o2, t2, rd2) in self.denial_records(zi, &st.qname, qtype, st.kind, st.closest_encloser.as_ref(), st.source.as_ref()) {
                        self.push_rrset(&mut recs, SEC_NS, zi, &o2, t2, &[rd2], None, true);
                    }
                }
            }
            match o.chain_end {
                Some(refzone::ChainEnd::OutOfZone) | Some(refzone::ChainEnd::Referral) => {
                    let target = refzone::cname_target(&o.chain.last().expect("chain").2);
                    if visited.contains(&target) {
                        break;
                    }
                    visited.push(target.clone());
                    next = Some(target);
                }
                _ => {
                    if o.kind == Kind::Referral {
                        // cannot happen: the deepest configured zone is always asked
                        rcode = 2;
                    }
                }
            }
            match next {
                Some(n) => cur = n,
                None => break,
            }
        }
        // de-duplicate (a CNAME chain may revisit an RRset)
        let mut seen = HashSet::new();
        recs.retain(|r| seen.insert(r.clone()));
        Resp { rcode, aa: false, recs, kind: kind_label }
    }
}

impl World {
    // ---- one authoritative server (iterative answers; used by the validating-recursor point) ----

    /// What an authoritative-only server for zone `zi` answers to (qname, qtype): data it is
    /// authoritative for (RRSIGs with DO), in-zone CNAME chains, referrals at zone cuts (NS, DS +
    /// RRSIG(DS) or the NSEC / NSEC3 records proving that there is no DS, glue), negative answers
    /// with SOA + denial, REFUSED for names outside the zone. Never crosses a zone cut, never
    /// recurses. Built from the same reference data / signer as `honest`; nothing of hickory.
    pub fn auth(&self, zi: usize, qname: &[Vec<u8>], qtype: u16, dnssec: bool) -> Resp {
        let key = (zi, fold(qname), qtype, dnssec);
        if let Some(r) = self.auth_cache.lock().unwrap().get(&key) {
            return r.clone();
        }
        let r = self.auth_uncached(zi, &key.1, qtype, dnssec);
        self.auth_cache.lock().unwrap().insert(key, r.clone());
        r
    }

    fn auth_uncached(&self, zi: usize, q: &Name, qtype: u16, dnssec: bool) -> Resp {
        let z = &self.truth.zones[zi];
        if !is_subdomain(q, &z.apex) {
            return Resp { rcode: 5, aa: false, recs: Vec::new(), kind: "refused".into() };
        }
        let signed = z.spec.signed && dnssec;
        let o = ref_auth(&z.full, q, qtype);
        let mut kind_label = o.kind.as_str().to_string();
        if let Some(ce) = o.chain_end {
            kind_label = format!("{}>{}", kind_label, ce.as_str());
        }
        let mut recs: Vec<Rec> = Vec::new();
        let mut rcode = 0u8;
        let mut aa = true;
        let mut last_negative: Option<&refzone::Step> = None;
        for (si, st) in o.steps.iter().enumerate() {
            let wild = st.kind.is_wildcard();
            let wl = if wild { st.closest_encloser.as_ref().map(|ce| ce.len() as u8) } else { None };
            match st.kind {
                Kind::Answer | Kind::WildcardAnswer => {
                    let rds: Vec<Vec<u8>> = st.rrs.iter().map(|r| r.2.clone()).collect();
                    self.push_rrset(&mut recs, SEC_AN, zi, &st.qname, st.rrs[0].1, &rds, wl, signed);
                }
                Kind::CnameChain | Kind::WildcardCname => {
                    let rds: Vec<Vec<u8>> = st.rrs.iter().map(|r| r.2.clone()).collect();
                    self.push_rrset(&mut recs, SEC_AN, zi, &st.qname, ty::CNAME, &rds, wl, signed);
                }
                Kind::Referral if si == 0 => {
                    // a referral: NS of the cut (never signed), DS + RRSIG(DS) or the proof that there
                    // is none, glue for name servers at or below the cut
                    aa = false;
                    let cut = st.cut.clone().expect("referral has a cut");
                    let ns: Vec<Vec<u8>> = st.rrs.iter().map(|r| r.2.clone()).collect();
                    self.push_rrset(&mut recs, SEC_NS, zi, &cut, ty::NS, &ns, None, false);
                    if signed {
                        match z.full.rrset(&cut, ty::DS) {
                            Some(ds) if !ds.is_empty() => self.push_rrset(&mut recs, SEC_NS, zi, &cut, ty::DS, ds, None, true),
                            _ => {
                                for (o2, t2, rd2) in self.denial_records(zi, &cut, ty::DS, Kind::Nodata, None, None) {
                                    self.push_rrset(&mut recs, SEC_NS, zi, &o2, t2, &[rd2], None, true);
                                }
                            }
                        }
                    }
                    for rd in &ns {
                        let target = refzone::cname_target(rd);
                        if !is_subdomain(&target, &cut) {
                            continue;
                        }
                        // the parent's glue is a copy of the address records the child publishes
                        let ci = self.truth.zone_of_name(&target);
                        for t in [ty::A, ty::AAAA] {
                            if let Some(rds) = self.truth.zones[ci].full.rrset(&target, t) {
                                self.push_rrset(&mut recs, SEC_AR, zi, &target, t, rds, None, false);
                            }
                        }
                    }
                }
                _ => {}
            }
            if wild && signed && matches!(st.kind, Kind::WildcardAnswer | Kind::WildcardCname) {
                for (o2, t2, rd2) in self.denial_records(zi, &st.qname, qtype, st.kind, st.closest_encloser.as_ref(), st.source.as_ref()) {
                    self.push_rrset(&mut recs, SEC_NS, zi, &o2, t2, &[rd2], None, true);
                }
            }
            if st.kind.is_negative() {
                last_negative = Some(st);
            }
        }
        if let Some(st) = last_negative {
            if st.kind == Kind::Nxdomain {
                rcode = 3;
            }
            let soa: Vec<Vec<u8>> = z.full.rrset(&z.apex, ty::SOA).cloned().unwrap_or_default();
            let mut soa_recs = Vec::new();
            self.push_rrset(&mut soa_recs, SEC_NS, zi, &z.apex, ty::SOA, &soa, None, signed);
            for r in soa_recs.iter_mut() {
                r.ttl = r.ttl.min(TTL_NEG);
            }
            recs.extend(soa_recs);
            if signed {
                for (o2, t2, rd2) in self.denial_records(zi, &st.qname, qtype, st.kind, st.closest_encloser.as_ref(), st.source.as_ref()) {
                    self.push_rrset(&mut recs, SEC_NS, zi, &o2, t2, &[rd2], None, true);
                }
            }
        }
        let mut seen = HashSet::new();
        recs.retain(|r| seen.insert(r.clone()));
        Resp { rcode, aa, recs, kind: kind_label }
    }
}

/// uncompressed wire form of a response
pub fn wire(qname: &[Vec<u8>], qtype: u16, r: &Resp, ad: bool) -> Vec<u8> {
    use vh::refwire::{put_header, put_question, put_record, WHeader};
    let mut b = Vec::new();
    let n = |s: u8| r.recs.iter().filter(|x| x.sec == s).count() as u16;
    let flags: u16 = 0x8000 | 0x0100 | 0x0080 | if r.aa { 0x0400 } else { 0 } | if ad { 0x0020 } else { 0 } | (r.rcode as u16 & 0xf);
    put_header(&mut b, &WHeader { id: 0, flags, qd: 1, an: n(SEC_AN), ns: n(SEC_NS), ar: n(SEC_AR) });
    put_question(&mut b, qname, qtype, 1);
    for s in [SEC_AN, SEC_NS, SEC_AR] {
        for x in r.recs.iter().filter(|x| x.sec == s) {
            put_record(&mut b, &x.owner, x.rtype, x.class, x.ttl, &x.rdata);
        }
    }
    b
}

pub fn in_zone(n: &[Vec<u8>], apex: &[Vec<u8>]) -> bool {
    is_subdomain(n, apex)
}

pub fn sub(label: &str, apex: &[Vec<u8>]) -> Name {
    child(label.as_bytes(), apex)
}
