//! Clause 5: no constructor / combinator hands back a name above 255 octets or a label above 63
//! (Err is fine, a panic is not), plus the documented result of each combinator against the
//! reference model.
//!
//! DONT-CAREs: the fqdn flag of `trim_to` / `base_name` on a *relative* input (hickory returns
//! an FQDN there; only FQDN behaviour is documented); `into_wildcard` of a name without labels;
//! content produced by the `&str` (IDNA) flavours of append/prepend.

use hickory_proto::rr::{LowerName, Name};
use serde_json::{json, Value};

use vh::mon::{self, hex, unhex};
use vh::prng::{fnv64, Rng};

use crate::common::{build, err_kind, to_rname, Ck};
use crate::fam;
use crate::refname::{fold_labels, labels_valid, RName};

#[derive(Clone, Debug)]
pub enum Op {
    FromLabels(Vec<Vec<u8>>),
    FromText(&'static str, String, Option<RName>), // which text constructor, text, origin (parse only)
    AppendLabel(RName, Vec<u8>),
    AppendLabelStr(RName, String),
    PrependLabel(RName, Vec<u8>),
    PrependLabelStr(RName, String),
    AppendName(RName, RName),
    AppendDomain(RName, RName),
    IntoWildcard(RName),
    TrimTo(RName, usize),
    BaseName(RName),
    ToLowercase(RName),
    RandomizeCase(RName),
    LowerNew(RName),
    LowerIntoWildcard(RName),
    LowerBaseName(RName),
}

pub const TEXT_CTORS: &[&str] = &["from_ascii", "from_utf8", "from_str", "from_str_relaxed", "parse", "lower_from_str"];

/// ops for which an Err outcome is possible (must be observed with both outcomes)
pub const FALLIBLE: &[&str] = &["from_labels", "from_ascii", "from_utf8", "from_str", "from_str_relaxed", "parse", "parse_origin", "append_label", "append_label_str", "prepend_label", "prepend_label_str", "append_name", "append_domain"];
pub const INFALLIBLE: &[&str] = &["into_wildcard", "trim_to", "base_name", "to_lowercase", "randomize_label_case", "lower_new", "lower_into_wildcard", "lower_base_name"];

impl Op {
    pub fn name(&self) -> &'static str {
        match self {
            Op::FromLabels(_) => "from_labels",
            Op::FromText(c, _, o) => {
                if *c == "parse" && o.is_some() {
                    "parse_origin"
                } else {
                    c
                }
            }
            Op::AppendLabel(..) => "append_label",
            Op::AppendLabelStr(..) => "append_label_str",
            Op::PrependLabel(..) => "prepend_label",
            Op::PrependLabelStr(..) => "prepend_label_str",
            Op::AppendName(..) => "append_name",
            Op::AppendDomain(..) => "append_domain",
            Op::IntoWildcard(_) => "into_wildcard",
            Op::TrimTo(..) => "trim_to",
            Op::BaseName(_) => "base_name",
            Op::ToLowercase(_) => "to_lowercase",
            Op::RandomizeCase(_) => "randomize_label_case",
            Op::LowerNew(_) => "lower_new",
            Op::LowerIntoWildcard(_) => "lower_into_wildcard",
            Op::LowerBaseName(_) => "lower_base_name",
        }
    }

    pub fn to_json(&self) -> Value {
        let hexl = |ls: &Vec<Vec<u8>>| ls.iter().map(|l| hex(l)).collect::<Vec<_>>();
        let mut v = json!({"kind": "op", "op": self.name()});
        match self {
            Op::FromLabels(ls) => v["labels"] = json!(hexl(ls)),
            Op::FromText(c, t, o) => {
                v["ctor"] = json!(c);
                v["text"] = json!(t);
                if let Some(o) = o {
                    v["origin"] = o.to_json();
                }
            }
            Op::AppendLabel(n, l) | Op::PrependLabel(n, l) => {
                v["name"] = n.to_json();
                v["label"] = json!(hex(l));
            }
            Op::AppendLabelStr(n, s) | Op::PrependLabelStr(n, s) => {
                v["name"] = n.to_json();
                v["label_str"] = json!(s);
            }
            Op::AppendName(a, b) | Op::AppendDomain(a, b) => {
                v["name"] = a.to_json();
                v["other"] = b.to_json();
            }
            Op::TrimTo(n, k) => {
                v["name"] = n.to_json();
                v["n"] = json!(k);
            }
            Op::IntoWildcard(n) | Op::BaseName(n) | Op::ToLowercase(n) | Op::RandomizeCase(n) | Op::LowerNew(n) | Op::LowerIntoWildcard(n) | Op::LowerBaseName(n) => v["name"] = n.to_json(),
        }
        v
    }

    pub fn from_json(v: &Value) -> Option<Op> {
        let name = || RName::from_json(&v["name"]);
        let other = || RName::from_json(&v["other"]);
        Some(match v["op"].as_str()? {
            "from_labels" => Op::FromLabels(v["labels"].as_array()?.iter().map(|l| unhex(l.as_str().unwrap_or(""))).collect()),
            "append_label" => Op::AppendLabel(name()?, unhex(v["label"].as_str()?)),
            "prepend_label" => Op::PrependLabel(name()?, unhex(v["label"].as_str()?)),
            "append_label_str" => Op::AppendLabelStr(name()?, v["label_str"].as_str()?.to_string()),
            "prepend_label_str" => Op::PrependLabelStr(name()?, v["label_str"].as_str()?.to_string()),
            "append_name" => Op::AppendName(name()?, other()?),
            "append_domain" => Op::AppendDomain(name()?, other()?),
            "into_wildcard" => Op::IntoWildcard(name()?),
            "trim_to" => Op::TrimTo(name()?, v["n"].as_u64()? as usize),
            "base_name" => Op::BaseName(name()?),
            "to_lowercase" => Op::ToLowercase(name()?),
            "randomize_label_case" => Op::RandomizeCase(name()?),
            "lower_new" => Op::LowerNew(name()?),
            "lower_into_wildcard" => Op::LowerIntoWildcard(name()?),
            "lower_base_name" => Op::LowerBaseName(name()?),
            _ => {
                let c = TEXT_CTORS.iter().find(|c| Some(**c) == v["ctor"].as_str())?;
                Op::FromText(c, v["text"].as_str()?.to_string(), RName::from_json(&v["origin"]))
            }
        })
    }
}

enum Model {
    /// documented result
    Is(RName),
    /// documented labels; flag not judged
    Labels(Vec<Vec<u8>>),
    /// equal up to letter case to this name, same flag
    SameUpToCase(RName),
    /// result would break a limit: Err expected (Ok is caught by the limit monitor)
    TooLong,
    /// content not judged
    DontCare,
}

fn model(op: &Op) -> Model {
    let lim = |r: RName| if r.valid() { Model::Is(r) } else { Model::TooLong };
    match op {
        Op::FromLabels(ls) => {
            if ls.iter().any(|l| l.is_empty()) {
                Model::DontCare // hickory rejects empty labels; nothing in the statement about it
            } else {
                lim(RName::new(ls.clone(), true))
            }
        }
        Op::FromText(..) | Op::AppendLabelStr(..) | Op::PrependLabelStr(..) => Model::DontCare,
        Op::AppendLabel(n, l) => {
            if l.is_empty() {
                return Model::DontCare;
            }
            let mut r = n.clone();
            r.labels.push(l.clone());
            lim(r)
        }
        Op::PrependLabel(n, l) => {
            if l.is_empty() {
                return Model::DontCare;
            }
            let mut r = n.clone();
            r.labels.insert(0, l.clone());
            lim(r)
        }
        Op::AppendName(a, b) => lim(RName::new([a.labels.clone(), b.labels.clone()].concat(), b.fqdn)),
        Op::AppendDomain(a, b) => lim(RName::new([a.labels.clone(), b.labels.clone()].concat(), true)),
        Op::IntoWildcard(n) | Op::LowerIntoWildcard(n) => {
            if n.labels.is_empty() {
                return Model::DontCare;
            }
            let mut r = if matches!(op, Op::LowerIntoWildcard(_)) { RName::new(n.folded(), n.fqdn) } else { n.clone() };
            r.labels[0] = b"*".to_vec();
            Model::Is(r)
        }
        Op::TrimTo(n, k) => {
            if *k > n.labels.len() {
                Model::Is(n.clone())
            } else {
                let ls = n.labels[n.labels.len() - k..].to_vec();
                if n.fqdn {
                    Model::Is(RName::new(ls, true))
                } else {
                    Model::Labels(ls)
                }
            }
        }
        Op::BaseName(n) | Op::LowerBaseName(n) => {
            let src = if matches!(op, Op::LowerBaseName(_)) { n.folded() } else { n.labels.clone() };
            if src.is_empty() {
                Model::Is(RName::new(src, n.fqdn))
            } else if n.fqdn {
                Model::Is(RName::new(src[1..].to_vec(), true))
            } else {
                Model::Labels(src[1..].to_vec())
            }
        }
        Op::ToLowercase(n) | Op::LowerNew(n) => Model::Is(RName::new(n.folded(), n.fqdn)),
        Op::RandomizeCase(n) => Model::SameUpToCase(n.clone()),
    }
}

fn mk(r: &RName) -> Result<Name, String> {
    build(r, "from_labels").and_then(|o| o.ok_or_else(|| "n/a".to_string()))
}

/// run the operation on the real code
fn run(op: &Op) -> Result<Result<Name, String>, String> {
    // inputs are built outside the judged call; an input that cannot be built aborts the case
    let e = |x: hickory_proto::ProtoError| err_kind(&x);
    Ok(match op {
        Op::FromLabels(ls) => Name::from_labels(ls.iter().map(|l| l.as_slice())).map_err(e),
        Op::FromText(c, t, o) => match *c {
            "from_ascii" => Name::from_ascii(t).map_err(e),
            "from_utf8" => Name::from_utf8(t).map_err(e),
            "from_str" => t.parse::<Name>().map_err(e),
            "from_str_relaxed" => Name::from_str_relaxed(t).map_err(e),
            "lower_from_str" => t.parse::<LowerName>().map(Name::from).map_err(e),
            _ => {
                let origin = match o {
                    Some(o) => Some(mk(o)?),
                    None => None,
                };
                Name::parse(t, origin.as_ref()).map_err(e)
            }
        },
        Op::AppendLabel(n, l) => mk(n)?.append_label(l.as_slice()).map_err(e),
        Op::AppendLabelStr(n, s) => mk(n)?.append_label(s.as_str()).map_err(e),
        Op::PrependLabel(n, l) => mk(n)?.prepend_label(l.as_slice()).map_err(e),
        Op::PrependLabelStr(n, s) => mk(n)?.prepend_label(s.as_str()).map_err(e),
        Op::AppendName(a, b) => mk(a)?.append_name(&mk(b)?).map_err(e),
        Op::AppendDomain(a, b) => mk(a)?.append_domain(&mk(b)?).map_err(e),
        Op::IntoWildcard(n) => Ok(mk(n)?.into_wildcard()),
        Op::TrimTo(n, k) => Ok(mk(n)?.trim_to(*k)),
        Op::BaseName(n) => Ok(mk(n)?.base_name()),
        Op::ToLowercase(n) => Ok(mk(n)?.to_lowercase()),
        Op::RandomizeCase(n) => {
            let mut x = mk(n)?;
            x.randomize_label_case();
            Ok(x)
        }
        Op::LowerNew(n) => Ok(Name::from(LowerName::new(&mk(n)?))),
        Op::LowerIntoWildcard(n) => Ok(Name::from(LowerName::new(&mk(n)?).into_wildcard())),
        Op::LowerBaseName(n) => Ok(Name::from(LowerName::new(&mk(n)?).base_name())),
    })
}

pub fn check_op(ck: &mut Ck, op: &Op) {
    let opn = op.name();
    let case = || op.to_json();
    let res = mon::catch(|| run(op));
    let res = match res {
        Err(p) => {
            ck.rep.eval();
            ck.fail("panic", &format!("{opn}|{}", p.site()), case(), json!("Ok or Err"), json!({"panic": p.message, "at": p.location}));
            return;
        }
        Ok(Err(_input_unbuildable)) => {
            ck.rep.count("op_input_not_buildable");
            return;
        }
        Ok(Ok(r)) => r,
    };
    ck.rep.eval();
    ck.rep.nontrivial(fnv64(op.to_json().to_string().as_bytes()));
    let m = model(op);
    match res {
        Ok(n) => {
            ck.rep.count(&format!("op/{opn}:Ok"));
            ck.limit(opn, &n, &case);
            let got = to_rname(&n);
            match m {
                Model::Is(want) => {
                    if got.labels != want.labels {
                        let what = if fold_labels(&got.labels) == fold_labels(&want.labels) { "letter-case" } else { "labels" };
                        ck.fail("op-result", &format!("{opn}|{what}"), case(), want.to_json(), got.to_json());
                    } else if got.fqdn != want.fqdn {
                        ck.fail("op-result", &format!("{opn}|fqdn"), case(), want.to_json(), got.to_json());
                    }
                    if want.wire_len() >= 254 {
                        ck.rep.count(&format!("op_edge_ok/{opn}"));
                    }
                }
                Model::Labels(want) => {
                    if got.labels != want {
                        ck.fail("op-result", &format!("{opn}|labels"), case(), json!(vh::refwire::show(&want)), got.to_json());
                    }
                }
                Model::SameUpToCase(src) => {
                    if !got.same(&src) || got.labels.iter().map(|l| l.len()).ne(src.labels.iter().map(|l| l.len())) {
                        ck.fail("op-result", &format!("{opn}|not-same-up-to-case"), case(), src.to_json(), got.to_json());
                    }
                    // and hickory must agree that it is the same name (feeds clause 1 with
                    // case-only pairs made by hickory itself)
                    if let Ok(orig) = mk(&src) {
                        ck.rep.count("randomized_case_eq_checks");
                        if got.labels != src.labels {
                            ck.rep.count("randomized_case_changed");
                        }
                        let same = mon::catch(|| {
                            use std::hash::{Hash, Hasher};
                            let h = |x: &Name| {
                                let mut s = std::collections::hash_map::DefaultHasher::new();
                                x.hash(&mut s);
                                s.finish()
                            };
                            (orig == n, h(&orig) == h(&n), orig.cmp(&n))
                        });
                        let pair = json!({"kind": "family", "names": [src.to_json(), got.to_json()]});
                        match same {
                            Ok((eq, hash_eq, ord)) => {
                                if !eq {
                                    ck.fail("eq", "case-only", pair.clone(), json!(true), json!(false));
                                }
                                if !hash_eq {
                                    ck.fail("hash", "case-only", pair.clone(), json!("equal names hash equally"), json!("hashes differ"));
                                }
                                if ord != std::cmp::Ordering::Equal {
                                    ck.fail("cmp-eq-consistency", "case-only", pair, json!("Equal"), json!(format!("{ord:?}")));
                                }
                            }
                            Err(p) => ck.fail("panic", &format!("compare|{}", p.site()), pair, json!("no panic"), json!(p.message)),
                        }
                    }
                }
                // over-long results are reported by ck.limit above
                Model::TooLong | Model::DontCare => {}
            }
        }
        Err(e) => {
            ck.rep.count(&format!("op/{opn}:Err"));
            ck.rep.count(&format!("op_err_kind/{opn}:{e}"));
            if let Model::Is(want) = m {
                // byte-label constructors have no character rules: a legal result must be built
                ck.fail("op-result", &format!("{opn}|rejects-legal"), case(), want.to_json(), json!(e));
            }
        }
    }
}

// ---------------------------------------------------------------------------------------------
// generation: inputs at the edges (labels 62/63/64, totals 253..257)

fn edge_total(rng: &mut Rng) -> usize {
    *rng.pick(&[200usize, 250, 252, 253, 254, 255, 255, 256, 257, 258, 300])
}

fn edge_label_len(rng: &mut Rng) -> usize {
    *rng.pick(&[1usize, 2, 30, 62, 63, 63, 64, 65, 100])
}

fn label_of(rng: &mut Rng, len: usize, host: bool) -> Vec<u8> {
    (0..len).map(|k| if host { if k == 0 { *rng.pick(b"abXY09_") } else { *rng.pick(b"abXY09_-") } } else { *rng.pick(b"abXY\x00\xff.*\\") }).collect()
}

/// a legal name of exactly `total` wire octets (total ≤ 255)
fn legal_name(rng: &mut Rng, total: usize, host: bool) -> RName {
    let fqdn = rng.chance(3, 4);
    RName::new(fam::name_with_wire_len(rng, total.clamp(1, 255), 63, host), fqdn)
}

fn host_text_of(labels: &[Vec<u8>], fqdn: bool) -> String {
    RName::new(labels.to_vec(), fqdn).host_text()
}

pub fn gen_op(rng: &mut Rng) -> Op {
    let edge = rng.chance(3, 4);
    let small = |rng: &mut Rng| {
        let mut n = fam::base_name(rng);
        while !n.valid() {
            n.labels.pop();
        }
        n
    };
    match rng.below(22) {
        0 | 1 => {
            // from_labels: legal, or over-long total, or an over-long label, or > 255 labels
            let ls = if edge {
                let total = edge_total(rng);
                let maxl = *rng.pick(&[63usize, 63, 63, 64, 70]);
                fam::name_with_wire_len(rng, total, maxl, false)
            } else if rng.chance(1, 20) {
                vec![vec![b'a']; rng.urange(120, 300)]
            } else {
                small(rng).labels
            };
            Op::FromLabels(ls)
        }
        2..=5 => {
            // text constructors on host-style text around the limits
            let ctor = *rng.pick(TEXT_CTORS);
            let (labels, fqdn) = if edge {
                let total = edge_total(rng);
                let maxl = *rng.pick(&[63usize, 63, 63, 64]);
                (fam::name_with_wire_len(rng, total, maxl, true), rng.bool())
            } else {
                let n = crate::text::gen_host_name(rng);
                (n.labels, n.fqdn)
            };
            let mut text = host_text_of(&labels, fqdn);
            if rng.chance(1, 10) {
                // escapes and oddities: limits must hold whatever the text
                let extra = *rng.pick(&["\\046", "\\.", "\\\\", "\\377", "\\0", "..", "\\", " ", "\u{e9}", "\\128", "\\400"]);
                let at = rng.usize_below(text.len() + 1);
                if text.is_char_boundary(at) {
                    text.insert_str(at, extra);
                }
            }
            if ctor != "from_ascii" && rng.chance(2, 3) {
                // the IDNA (STD3) constructors refuse an interior '_': keep most inputs acceptable
                text = text.replace('_', "u");
            }
            let origin = if ctor == "parse" && rng.chance(2, 3) {
                let o_total = *rng.pick(&[1usize, 5, 60, 120, 190]);
                let mut o = legal_name(rng, o_total, true);
                o.fqdn = rng.chance(9, 10);
                // relative local part so that the origin is appended
                if text.ends_with('.') && !text.ends_with("\\.") && rng.chance(4, 5) {
                    text.pop();
                }
                // steer the sum to the edge
                if edge && rng.chance(2, 3) {
                    let want_local = edge_total(rng).saturating_sub(o.wire_len()).max(2);
                    let l = fam::name_with_wire_len(rng, want_local + 1, 63, true);
                    text = host_text_of(&l, false);
                }
                Some(o)
            } else {
                None
            };
            Op::FromText(ctor, text, origin)
        }
        6..=8 => {
            let label_len = edge_label_len(rng);
            let t = edge_total(rng).saturating_sub(label_len + 1).clamp(1, 255);
            let n = if edge { legal_name(rng, t, false) } else { small(rng) };
            let l = label_of(rng, label_len, false);
            if rng.bool() {
                Op::AppendLabel(n, l)
            } else {
                Op::PrependLabel(n, l)
            }
        }
        9 => {
            let label_len = edge_label_len(rng);
            let t = edge_total(rng).saturating_sub(label_len + 1).clamp(1, 255);
            let n = if edge { legal_name(rng, t, true) } else { small(rng) };
            let mut s = String::from_utf8(label_of(rng, label_len, true)).unwrap();
            if rng.chance(1, 8) {
                s.push('\u{fc}'); // IDNA path: punycode expansion must respect the limits too
            }
            if rng.bool() {
                Op::AppendLabelStr(n, s)
            } else {
                Op::PrependLabelStr(n, s)
            }
        }
        10..=13 => {
            let (a, b) = if edge {
                let total = edge_total(rng); // wire length of the concatenation
                let a_len = rng.urange(1, total.min(255));
                let b_len = (total + 1).saturating_sub(a_len).clamp(1, 255);
                (legal_name(rng, a_len, false), legal_name(rng, b_len, false))
            } else {
                (small(rng), small(rng))
            };
            if rng.bool() {
                Op::AppendName(a, b)
            } else {
                Op::AppendDomain(a, b)
            }
        }
        14 | 15 => {
            let t = rng.urange(250, 255);
            let n = if edge { legal_name(rng, t, false) } else { small(rng) };
            match rng.below(3) {
                0 => Op::IntoWildcard(n),
                1 => Op::LowerIntoWildcard(n),
                _ => {
                    // first label shorter than "*"? impossible; but a 1-octet first label at 255 keeps 255
                    let mut m = n.clone();
                    if !m.labels.is_empty() && rng.bool() {
                        m.labels[0] = vec![b'q'];
                    }
                    Op::IntoWildcard(m)
                }
            }
        }
        16 | 17 => {
            let t = rng.urange(240, 255);
            let n = if edge { legal_name(rng, t, false) } else { small(rng) };
            let k = rng.usize_below(n.labels.len() + 3);
            match rng.below(3) {
                0 => Op::BaseName(n),
                1 => Op::LowerBaseName(n),
                _ => Op::TrimTo(n, k),
            }
        }
        18 | 19 => {
            let (t, h) = (rng.urange(250, 255), rng.bool());
            let n = if edge { legal_name(rng, t, h) } else { small(rng) };
            if rng.bool() {
                Op::ToLowercase(n)
            } else {
                Op::LowerNew(n)
            }
        }
        _ => {
            let t = rng.urange(200, 255);
            let n = if rng.chance(1, 4) { legal_name(rng, t, true) } else { small(rng) };
            Op::RandomizeCase(n)
        }
    }
}

#[allow(dead_code)]
pub fn is_legal(ls: &[Vec<u8>]) -> bool {
    labels_valid(ls)
}
