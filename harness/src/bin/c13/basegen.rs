//! Base requests of C13: shape (`Spec`) <-> wire, the generator that varies the header flags,
//! EDNS, ids, section sizes and the prerequisite section, and the "toggled twin" zone used by the
//! non-interference (`leak`) clause.
//!
//! A `Spec` is rebuilt from the unsigned request bytes alone (`Spec::parse`), so witnesses only
//! have to carry those bytes.
#![allow(dead_code)]

use serde_json::{json, Value};

use vh::prng::Rng;
use vh::refwire::{self, Labels, WHeader};

use super::refupdate::*;
use super::zonekit::*;

pub const F_TC: u16 = 0x0200;
pub const F_RD: u16 = 0x0100;
pub const F_Z: u16 = 0x0040;
pub const F_AD: u16 = 0x0020;
pub const F_CD: u16 = 0x0010;
/// the header bits a *request* may carry besides QR/opcode/rcode (AA and RA are response bits)
pub const REQ_FLAGS: [(u16, &str); 5] = [(F_RD, "rd"), (F_CD, "cd"), (F_AD, "ad"), (F_TC, "tc"), (F_Z, "z")];
pub const REQ_FLAG_MASK: u16 = F_TC | F_RD | F_Z | F_AD | F_CD;
pub const T_OPT: u16 = 41;

/// EDNS option kinds the generator produces: (feature / counter name, option code)
pub const OPTION_KINDS: [(&str, u16); 8] = [("nsid", 3), ("cookie", 10), ("padding", 12), ("expire", 9), ("keepalive", 11), ("dau", 5), ("subnet", 8), ("unknown", 0)];

/// kind of an EDNS option, by code (everything the generator does not know by name is "unknown")
pub fn option_kind(code: u16) -> &'static str {
    OPTION_KINDS.iter().find(|(_, c)| *c == code && code != 0).map(|(n, _)| *n).unwrap_or("unknown")
}

/// request feature name of an option kind (`:req=` attribution)
fn option_feature(kind: &str) -> &'static str {
    match kind {
        "nsid" => "opt:nsid",
        "cookie" => "opt:cookie",
        "padding" => "opt:padding",
        "expire" => "opt:expire",
        "keepalive" => "opt:keepalive",
        "dau" => "opt:dau",
        "subnet" => "opt:subnet",
        _ => "opt:unknown",
    }
}

/// counter class of an option kind
fn option_class(kind: &str) -> &'static str {
    match kind {
        "nsid" => "opt-option-nsid",
        "cookie" => "opt-option-cookie",
        "padding" => "opt-option-padding",
        "expire" => "opt-option-expire",
        "keepalive" => "opt-option-keepalive",
        "dau" => "opt-option-dau",
        "subnet" => "opt-option-subnet",
        _ => "opt-option-unknown",
    }
}

/// EDNS classes every quick run must reach with a verified reply, per request kind
pub const EDNS_CLASSES: [&str; 19] = [
    "no-opt", "opt-plain", "opt-do", "opt-z", "opt-payload-lt512", "opt-payload-512", "opt-payload-1232", "opt-payload-4096", "opt-payload-65535", "opt-with-options", "opt-options-several",
    "opt-option-nsid", "opt-option-cookie", "opt-option-padding", "opt-option-expire", "opt-option-keepalive", "opt-option-dau", "opt-option-subnet", "opt-option-unknown",
];

#[derive(Clone, Debug, PartialEq, Eq)]
pub struct Opt {
    pub payload: u16,
    pub dnssec_ok: bool,
    /// the 15 flag bits behind DO (RFC 6891 6.1.4: "Set to zero by senders and ignored by receivers")
    pub z: u16,
    /// EDNS version; 0 for every base request (anything else is the separate BADVERS case)
    pub version: u8,
    /// options in wire order: (code, data)
    pub options: Vec<(u16, Vec<u8>)>,
}

impl Opt {
    pub fn plain(payload: u16, dnssec_ok: bool) -> Opt {
        Opt { payload, dnssec_ok, z: 0, version: 0, options: vec![] }
    }

    fn ttl(&self) -> u32 {
        // RFC 6891 6.1.3: ext-rcode(0) | version | DO | Z
        ((self.version as u32) << 16) | if self.dnssec_ok { 0x8000 } else { 0 } | (self.z & 0x7fff) as u32
    }

    fn rdata(&self) -> Vec<u8> {
        let mut rd = Vec::new();
        for (code, data) in &self.options {
            rd.extend_from_slice(&code.to_be_bytes());
            rd.extend_from_slice(&(data.len() as u16).to_be_bytes());
            rd.extend_from_slice(data);
        }
        rd
    }

    fn from_record(class: u16, ttl: u32, rd: &[u8]) -> Result<Opt, String> {
        let mut options = Vec::new();
        let mut i = 0;
        while i < rd.len() {
            if i + 4 > rd.len() {
                return Err("OPT rdata: truncated option header".into());
            }
            let code = u16::from_be_bytes([rd[i], rd[i + 1]]);
            let len = u16::from_be_bytes([rd[i + 2], rd[i + 3]]) as usize;
            if i + 4 + len > rd.len() {
                return Err("OPT rdata: truncated option data".into());
            }
            options.push((code, rd[i + 4..i + 4 + len].to_vec()));
            i += 4 + len;
        }
        Ok(Opt { payload: class, dnssec_ok: ttl & 0x8000 != 0, z: (ttl & 0x7fff) as u16, version: (ttl >> 16) as u8, options })
    }

    pub fn kinds(&self) -> Vec<&'static str> {
        let mut v: Vec<&'static str> = Vec::new();
        for (c, _) in &self.options {
            let k = option_kind(*c);
            if !v.contains(&k) {
                v.push(k);
            }
        }
        v
    }

    pub fn json(&self) -> Value {
        json!({
            "payload": self.payload, "do": self.dnssec_ok, "z": self.z, "version": self.version,
            "options": self.options.iter().map(|(c, d)| json!({"code": c, "kind": option_kind(*c), "data": vh::mon::hex(d)})).collect::<Vec<_>>(),
        })
    }
}

/// Shape of an unsigned base request
#[derive(Clone, Debug, PartialEq, Eq)]
pub struct Spec {
    /// "update" | "axfr"
    pub kind: String,
    pub id: u16,
    /// subset of REQ_FLAG_MASK
    pub flags: u16,
    /// EDNS OPT, last record of the unsigned message => right before the TSIG
    pub opt: Option<Opt>,
    /// UPDATE: prerequisite and update sections
    pub pre: Vec<Rr>,
    pub upd: Vec<Rr>,
    /// AXFR: IXFR-style SOA in the authority section
    pub auth: Vec<Rr>,
}

impl Spec {
    pub fn is_update(&self) -> bool {
        self.kind == "update"
    }

    pub fn wire(&self) -> Vec<u8> {
        let mut b = Vec::new();
        let (opcode, qtype, an, ns): (u16, u16, &[Rr], &[Rr]) = if self.is_update() { (5, T_SOA, &self.pre, &self.upd) } else { (0, T_AXFR, &[], &self.auth) };
        refwire::put_header(&mut b, &WHeader { id: self.id, flags: (opcode << 11) | (self.flags & REQ_FLAG_MASK), qd: 1, an: an.len() as u16, ns: ns.len() as u16, ar: self.opt.is_some() as u16 });
        refwire::put_question(&mut b, &apex(), qtype, C_IN);
        for rr in an.iter().chain(ns.iter()) {
            refwire::put_record(&mut b, &rr.owner, rr.rtype, rr.class, rr.ttl, &rr.rdata);
        }
        if let Some(o) = &self.opt {
            // RFC 6891 6.1.2: owner root, CLASS = payload size, TTL = ext-rcode(0) version DO Z, RDATA = options
            refwire::put_record(&mut b, &[], T_OPT, o.payload, o.ttl(), &o.rdata());
        }
        b
    }

    /// Shape of an unsigned request produced by `wire` (or by the older fixed-shape generator).
    pub fn parse(unsigned: &[u8]) -> Result<Spec, String> {
        let w = refwire::walk(unsigned)?;
        let rr = |r: &refwire::WRecord| Rr { owner: r.owner.labels.clone(), rtype: r.rtype, class: r.class, ttl: r.ttl, rdata: r.rdata(unsigned).to_vec() };
        let update = w.header.opcode() == 5;
        let opt = match w.sections[2].iter().find(|r| r.rtype == T_OPT) {
            Some(r) => Some(Opt::from_record(r.class, r.ttl, r.rdata(unsigned))?),
            None => None,
        };
        Ok(Spec {
            kind: if update { "update" } else { "axfr" }.to_string(),
            id: w.header.id,
            flags: w.header.flags & REQ_FLAG_MASK,
            opt,
            pre: if update { w.sections[0].iter().map(rr).collect() } else { vec![] },
            upd: if update { w.sections[1].iter().map(rr).collect() } else { vec![] },
            auth: if update { vec![] } else { w.sections[1].iter().map(rr).collect() },
        })
    }

    /// header-flag / EDNS classes this request belongs to (for counters)
    pub fn classes(&self) -> Vec<&'static str> {
        let mut v: Vec<&'static str> = REQ_FLAGS.iter().filter(|(m, _)| self.flags & m != 0).map(|(_, n)| *n).collect();
        if let Some(o) = &self.opt {
            v.push("with-opt");
            if o.dnssec_ok {
                v.push("with-opt-do");
            }
        }
        if v.is_empty() {
            v.push("plain");
        }
        v
    }

    /// EDNS classes of this request (subset of EDNS_CLASSES; counted per request kind)
    pub fn edns_classes(&self) -> Vec<&'static str> {
        let Some(o) = &self.opt else { return vec!["no-opt"] };
        let mut v: Vec<&'static str> = Vec::new();
        if o.options.is_empty() && o.z == 0 {
            v.push("opt-plain");
        }
        if o.dnssec_ok {
            v.push("opt-do");
        }
        if o.z != 0 {
            v.push("opt-z");
        }
        v.push(match o.payload {
            0..=511 => "opt-payload-lt512",
            512 => "opt-payload-512",
            1232 => "opt-payload-1232",
            4096 => "opt-payload-4096",
            65535 => "opt-payload-65535",
            _ => "opt-payload-other",
        });
        if !o.options.is_empty() {
            v.push("opt-with-options");
        }
        if o.options.len() > 1 {
            v.push("opt-options-several");
        }
        for k in o.kinds() {
            v.push(option_class(k));
        }
        v
    }

    /// hickory's client side (`Message` model + `finalize`) can produce this request byte for
    /// byte: no reserved header bit, and an advertised payload size its `Edns` model holds
    /// (values below 512 are clamped on encoding)
    pub fn client_expressible(&self) -> bool {
        self.flags & F_Z == 0 && self.opt.as_ref().map(|o| o.payload >= 512).unwrap_or(true)
    }

    pub fn with_opt(&self, opt: Option<Opt>) -> Spec {
        let mut s = self.clone();
        s.opt = opt;
        s
    }

    /// features that make this request differ from the default shape hickory's client helpers
    /// produce; used to attribute a reply-clause alarm to the smallest responsible feature
    pub fn features(&self) -> Vec<&'static str> {
        let mut v: Vec<&'static str> = REQ_FLAGS.iter().filter(|(m, _)| self.flags & m != 0).map(|(_, n)| *n).collect();
        if let Some(o) = &self.opt {
            v.push("opt");
            if o.dnssec_ok {
                v.push("do");
            }
            if o.z != 0 {
                v.push("opt-z");
            }
            if o.payload < 512 {
                v.push("opt-small-payload");
            }
            if o.version != 0 {
                v.push("opt-version");
            }
            for k in o.kinds() {
                v.push(option_feature(k));
            }
        }
        if !self.pre.is_empty() {
            v.push("prereq");
        }
        if !self.auth.is_empty() {
            v.push("ixfr-authority");
        }
        v
    }

    /// the same request with only the features in `keep` (update section / question / id unchanged)
    pub fn only(&self, keep: &[&str]) -> Spec {
        let mut s = self.clone();
        s.flags = 0;
        for (m, n) in REQ_FLAGS {
            if keep.contains(&n) {
                s.flags |= self.flags & m;
            }
        }
        s.opt = match &self.opt {
            Some(o) if keep.iter().any(|k| *k == "do" || k.starts_with("opt")) => Some(Opt {
                payload: if keep.contains(&"opt-small-payload") { o.payload } else { o.payload.max(512) },
                dnssec_ok: o.dnssec_ok && keep.contains(&"do"),
                z: if keep.contains(&"opt-z") { o.z } else { 0 },
                version: if keep.contains(&"opt-version") { o.version } else { 0 },
                options: o.options.iter().filter(|(c, _)| keep.contains(&option_feature(option_kind(*c)))).cloned().collect(),
            }),
            _ => None,
        };
        if !keep.contains(&"prereq") {
            s.pre.clear();
        }
        if !keep.contains(&"ixfr-authority") {
            s.auth.clear();
        }
        s
    }

    pub fn json(&self) -> Value {
        json!({
            "kind": self.kind, "id": self.id,
            "header_flags": REQ_FLAGS.iter().filter(|(m, _)| self.flags & m != 0).map(|(_, n)| *n).collect::<Vec<_>>(),
            "opt": self.opt.as_ref().map(|o| o.json()),
            "prerequisites": self.pre.iter().map(|r| format!("{} [{}]", rr_text(r), pre_form(r))).collect::<Vec<_>>(),
            "updates": self.upd.iter().map(rr_text).collect::<Vec<_>>(),
            "authority": self.auth.iter().map(rr_text).collect::<Vec<_>>(),
        })
    }
}

// ---------------------------------------------------------------------------------------------
// prerequisites generated against the known zone content + the zone that flips their truth

pub const FORMS: [&str; 5] = ["name-in-use", "name-not-in-use", "rrset-exists", "rrset-not-exists", "rrset-equals"];

/// one prerequisite (1..n RRs for the value dependent form)
#[derive(Clone, Debug)]
pub struct Prereq {
    pub form: &'static str,
    pub rrs: Vec<Rr>,
    /// holds in the zone it was generated against (by `refupdate::prerequisites`)
    pub satisfied: bool,
    pub name: Labels,
}

fn mk(owner: &Labels, rtype: u16, class: u16, rdata: Vec<u8>) -> Rr {
    Rr { owner: owner.clone(), rtype, class, ttl: 0, rdata }
}

fn has_cname(z: &Zone, n: &Labels) -> bool {
    z.rrset(n, T_CNAME).is_some()
}

/// adding an RRset (n, t) keeps the zone loadable
fn can_add(z: &Zone, n: &Labels, t: u16) -> bool {
    if z.rrset(n, t).is_some() {
        return false;
    }
    if *n == z.apex {
        return matches!(t, T_A | T_TXT | T_MX);
    }
    if t == T_CNAME {
        !z.name_in_use(n)
    } else {
        !has_cname(z, n)
    }
}

/// removing / rewriting the RRset (n, t) keeps the zone loadable
fn can_touch(z: &Zone, n: &Labels, t: u16) -> bool {
    !(*n == z.apex && matches!(t, T_SOA | T_NS)) && t != T_SOA
}

fn candidate_names() -> Vec<Labels> {
    ["a.z.", "b.z.", "a.a.z.", "*.z.", "c.z."].iter().map(|s| lbl(s)).collect()
}

fn existing_sets(z: &Zone) -> Vec<RrKey> {
    z.sets.iter().filter(|((n, t), s)| !s.is_empty() && can_touch(z, n, *t)).map(|(k, _)| k.clone()).collect()
}

fn absent_sets(z: &Zone) -> Vec<RrKey> {
    let mut v = Vec::new();
    let mut names = candidate_names();
    names.push(z.apex.clone());
    for n in names {
        for t in [T_A, T_TXT, T_MX, T_CNAME, T_NS] {
            if (t != T_NS || n != z.apex) && can_add(z, &n, t) {
                v.push((fold(&n), t));
            }
        }
    }
    v
}

fn other_value(t: u16, have: &[Vec<u8>]) -> Option<Vec<u8>> {
    rdata_values(t, 1).into_iter().find(|v| !have.contains(v))
}

/// A prerequisite of the given form whose truth in `z` is `want` (or the opposite when the zone
/// offers no candidate), and the zone that differs from `z` exactly in the RRset(s) the
/// prerequisite names such that the truth flips. `avoid`: a name the prerequisite must not use.
pub fn gen_prereq_pair(rng: &mut Rng, z: &Zone, form: &'static str, want: bool, avoid: Option<&Labels>) -> Option<(Prereq, Zone)> {
    for want in [want, !want] {
        if let Some(x) = gen_one(rng, z, form, want, avoid) {
            return Some(x);
        }
    }
    None
}

fn gen_one(rng: &mut Rng, z: &Zone, form: &'static str, want: bool, avoid: Option<&Labels>) -> Option<(Prereq, Zone)> {
    let ok_name = |n: &Labels| avoid.map(|a| fold(a) != fold(n)).unwrap_or(true);
    let mut b = z.clone();
    let (rrs, name): (Vec<Rr>, Labels) = match form {
        "name-in-use" | "name-not-in-use" => {
            // truth of "in use" wanted
            let in_use = (form == "name-in-use") == want;
            let names: Vec<Labels> = candidate_names().into_iter().filter(|n| ok_name(n) && z.name_in_use(n) == in_use && (in_use || !has_cname(z, n))).collect();
            if names.is_empty() {
                return None;
            }
            let n = rng.pick(&names).clone();
            if in_use {
                let f = fold(&n);
                b.sets.retain(|(o, _), _| *o != f);
            } else {
                b.insert(&n, T_A, rd_a(7), 300);
            }
            (vec![mk(&n, T_ANY, if form == "name-in-use" { C_ANY } else { C_NONE }, vec![])], n)
        }
        "rrset-exists" | "rrset-not-exists" => {
            let exists = (form == "rrset-exists") == want;
            let keys: Vec<RrKey> = if exists { existing_sets(z) } else { absent_sets(z) }.into_iter().filter(|(n, _)| ok_name(n)).collect();
            if keys.is_empty() {
                return None;
            }
            let (n, t) = rng.pick(&keys).clone();
            if exists {
                b.sets.remove(&(fold(&n), t));
            } else {
                b.insert(&n, t, rdata_values(t, 1)[0].clone(), 300);
            }
            (vec![mk(&n, t, if form == "rrset-exists" { C_ANY } else { C_NONE }, vec![])], n)
        }
        _ => {
            // value dependent
            if want {
                let keys: Vec<RrKey> = existing_sets(z).into_iter().filter(|(n, _)| ok_name(n)).collect();
                if keys.is_empty() {
                    return None;
                }
                let (n, t) = rng.pick(&keys).clone();
                let have: Vec<Vec<u8>> = z.sets[&(n.clone(), t)].keys().cloned().collect();
                let ttl = *z.sets[&(n.clone(), t)].values().next().unwrap_or(&300);
                // twin: one value replaced by a different one (equal vs different value)
                let new = other_value(t, &have)?;
                let set = b.sets.get_mut(&(n.clone(), t))?;
                let victim = have[rng.usize_below(have.len())].clone();
                set.remove(&victim);
                set.insert(new, ttl);
                let mut rrs: Vec<Rr> = have.iter().map(|rd| mk(&n, t, C_IN, rd.clone())).collect();
                rng.shuffle(&mut rrs);
                (rrs, n)
            } else if rng.bool() {
                // RRset present with another value; twin holds exactly the value asked for
                let keys: Vec<RrKey> = existing_sets(z).into_iter().filter(|(n, _)| ok_name(n)).collect();
                if keys.is_empty() {
                    return None;
                }
                let (n, t) = rng.pick(&keys).clone();
                let have: Vec<Vec<u8>> = z.sets[&(n.clone(), t)].keys().cloned().collect();
                let ttl = *z.sets[&(n.clone(), t)].values().next().unwrap_or(&300);
                let v = other_value(t, &have)?;
                let set = b.sets.get_mut(&(n.clone(), t))?;
                set.clear();
                set.insert(v.clone(), ttl);
                (vec![mk(&n, t, C_IN, v)], n)
            } else {
                // RRset absent; twin holds it
                let keys: Vec<RrKey> = absent_sets(z).into_iter().filter(|(n, _)| ok_name(n)).collect();
                if keys.is_empty() {
                    return None;
                }
                let (n, t) = rng.pick(&keys).clone();
                let vals = rdata_values(t, 1);
                let v = rng.pick(&vals).clone();
                b.insert(&n, t, v.clone(), 300);
                (vec![mk(&n, t, C_IN, v)], n)
            }
        }
    };
    // the reference decides what holds where
    let ta = prerequisites(z, &rrs).is_empty();
    let tb = prerequisites(&b, &rrs).is_empty();
    if ta == tb || ta != want {
        return None;
    }
    Some((Prereq { form, rrs, satisfied: ta, name }, b))
}

/// well-formed (prescan-clean) update RRs; the first one always adds a fresh TXT RR at a name no
/// prerequisite and no other update RR touches, so that an accepted message changes the zone
pub fn gen_updates(rng: &mut Rng, z: &Zone, n: u64) -> Vec<Rr> {
    let txt = format!("c13-{n}");
    let mut v = vec![Rr { owner: lbl("u.z."), rtype: T_TXT, class: C_IN, ttl: 60, rdata: rd_txt(&[&txt]) }];
    let extra = rng.weighted(&[40, 35, 25]);
    let names: Vec<Labels> = ["a.z.", "b.z.", "a.a.z.", "c.z.", "e.z."].iter().map(|s| lbl(s)).collect();
    for _ in 0..extra {
        let n = rng.pick(&names).clone();
        let t = *rng.pick(&[T_A, T_TXT, T_MX]);
        let vals = rdata_values(t, 1);
        let rd = rng.pick(&vals).clone();
        v.push(match rng.below(4) {
            0 => Rr { owner: n, rtype: t, class: C_IN, ttl: *rng.pick(&TTLS), rdata: rd },
            1 => Rr { owner: n, rtype: t, class: C_NONE, ttl: 0, rdata: rd },
            2 => Rr { owner: n, rtype: t, class: C_ANY, ttl: 0, rdata: vec![] },
            _ => Rr { owner: n, rtype: T_ANY, class: C_ANY, ttl: 0, rdata: vec![] },
        });
    }
    let _ = z;
    v
}

pub struct Base {
    pub spec: Spec,
    /// prerequisites in message order; `toggled` marks the one the twin zone flips
    pub prereqs: Vec<(Prereq, bool)>,
    /// the zone that differs exactly in the RRset(s) the toggled prerequisite names
    pub zone_b: Option<Zone>,
}

pub fn gen_flags(rng: &mut Rng) -> u16 {
    let mut f = match rng.weighted(&[30, 45, 25]) {
        0 => 0,
        1 => *rng.pick(&[F_RD, F_CD, F_AD, F_TC]),
        _ => {
            let mut f = 0;
            for m in [F_RD, F_CD, F_AD, F_TC] {
                if rng.bool() {
                    f |= m;
                }
            }
            f
        }
    };
    if rng.chance(1, 16) {
        f |= F_Z;
    }
    f
}

/// payload sizes: below 512 (RFC 6891 6.2.3: "MUST be treated as equal to 512"), the common ones, the extremes
pub fn gen_payload(rng: &mut Rng) -> u16 {
    match rng.below(9) {
        0 => 512,
        1 => 1232,
        2 => 4096,
        3 => 65535,
        4 => 513,
        // hickory's Edns model (which the client signer goes through) holds payload sizes >= 512
        // only: such requests are signed by reftsig (see `Spec::client_expressible`)
        5 => *rng.pick(&[0u16, 1, 256, 511]),
        6 => rng.below(512) as u16,
        _ => rng.u16().max(512),
    }
}

/// one EDNS option of the given kind, as a client would send it
pub fn gen_option(rng: &mut Rng, kind: &str) -> (u16, Vec<u8>) {
    match kind {
        // RFC 5001 2.1: the request carries an empty NSID option
        "nsid" => (3, vec![]),
        // RFC 7873 4: client cookie only (8 bytes)
        "cookie" => (10, rng.bytes(8)),
        // RFC 7830: zero bytes, any length including 0
        "padding" => (12, vec![0u8; *rng.pick(&[0usize, 1, 7, 32, 96])]),
        // RFC 7314: empty in a request (what secondaries put on their SOA / IXFR / AXFR queries)
        "expire" => (9, vec![]),
        // RFC 7828: empty in a request
        "keepalive" => (11, vec![]),
        // RFC 6975: algorithm numbers (in the order hickory's bit set re-emits them)
        "dau" => (5, vec![8, 13, 15]),
        // RFC 7871: family 1, source prefix 24, scope 0, 192.0.2.0
        "subnet" => (8, vec![0, 1, 24, 0, 192, 0, 2]),
        // unassigned / local-use codes with random data
        _ => (*rng.pick(&[14u16, 100, 4242, 65001, 65534, 65535]), rng.bytes_between(0, 16)),
    }
}

pub fn gen_options(rng: &mut Rng) -> Vec<(u16, Vec<u8>)> {
    match rng.weighted(&[40, 38, 22]) {
        0 => vec![],
        1 => {
            let k = rng.pick(&OPTION_KINDS).0;
            vec![gen_option(rng, k)]
        }
        _ => {
            let n = rng.urange(2, 4);
            (0..n)
                .map(|_| {
                    let k = rng.pick(&OPTION_KINDS).0;
                    gen_option(rng, k)
                })
                .collect()
        }
    }
}

pub fn gen_z(rng: &mut Rng) -> u16 {
    match rng.below(3) {
        0 => 1 << rng.below(15),
        1 => 0x7fff,
        _ => (rng.u16() & 0x7fff).max(1),
    }
}

pub fn gen_opt(rng: &mut Rng) -> Option<Opt> {
    if rng.chance(3, 5) {
        Some(Opt { payload: gen_payload(rng), dnssec_ok: rng.chance(2, 5), z: if rng.chance(1, 8) { gen_z(rng) } else { 0 }, version: 0, options: gen_options(rng) })
    } else {
        None
    }
}

/// The EDNS shapes every base request is re-sent with (reply clause only): no OPT, a plain OPT at
/// each payload size class, DO on/off, Z bits, each option kind alone, several options, everything.
pub fn edns_sweep(rng: &mut Rng) -> Vec<Option<Opt>> {
    let mut v: Vec<Option<Opt>> = vec![None];
    let small = rng.below(512) as u16;
    for (i, p) in [small, 512, 1232, 4096, 65535].into_iter().enumerate() {
        v.push(Some(Opt::plain(p, i % 2 == 0)));
    }
    v.push(Some(Opt::plain(1232, true)));
    v.push(Some(Opt { z: gen_z(rng), ..Opt::plain(*rng.pick(&[512u16, 1232, 4096]), rng.bool()) }));
    for (k, _) in OPTION_KINDS {
        let options = vec![gen_option(rng, k)];
        v.push(Some(Opt { options, ..Opt::plain(*rng.pick(&[512u16, 1232, 4096, 65535]), rng.bool()) }));
    }
    // several options: every kind once in random order, then a random handful (repeats allowed)
    let mut all: Vec<(u16, Vec<u8>)> = OPTION_KINDS.iter().map(|(k, _)| gen_option(rng, k)).collect();
    rng.shuffle(&mut all);
    v.push(Some(Opt { options: all, ..Opt::plain(1232, rng.bool()) }));
    let n = rng.urange(2, 4);
    let some: Vec<(u16, Vec<u8>)> = (0..n)
        .map(|_| {
            let k = rng.pick(&OPTION_KINDS).0;
            gen_option(rng, k)
        })
        .collect();
    v.push(Some(Opt { options: some, ..Opt::plain(4096, rng.bool()) }));
    // everything at once
    let options = vec![gen_option(rng, "cookie"), gen_option(rng, "nsid"), gen_option(rng, "unknown")];
    v.push(Some(Opt { payload: small, dnssec_ok: true, z: gen_z(rng), version: 0, options }));
    v
}

pub fn gen_base(rng: &mut Rng, kind: &str, z: &Zone, n: u64, form_hint: u64) -> Base {
    let id = rng.u16().max(2);
    let flags = gen_flags(rng);
    let opt = gen_opt(rng);
    if kind != "update" {
        let mut auth = vec![];
        if rng.bool() {
            // IXFR-style: the client's current SOA in the authority section
            let serial = z.serial().unwrap_or(1).wrapping_sub(rng.range(0, 2) as u32);
            auth.push(Rr { owner: apex(), rtype: T_SOA, class: C_IN, ttl: 0, rdata: rd_soa("ns1.z.", "h.z.", serial, 3600, 600, 86400, 300) });
        }
        return Base { spec: Spec { kind: "axfr".into(), id, flags, opt, pre: vec![], upd: vec![], auth }, prereqs: vec![], zone_b: None };
    }
    let upd = gen_updates(rng, z, n);
    let n_pre = rng.weighted(&[20, 50, 30]);
    let mut prereqs: Vec<(Prereq, bool)> = Vec::new();
    let mut zone_b = None;
    if n_pre > 0 {
        // forms and polarity cycle with the base index so that every (form, polarity) is reached
        // even in small runs; the generator may have to flip the polarity for a given zone
        let form = FORMS[(form_hint % 5) as usize];
        let want = (form_hint / 5) % 2 == 0;
        if let Some((p, b)) = gen_prereq_pair(rng, z, form, want, None) {
            let avoid = p.name.clone();
            prereqs.push((p, true));
            if n_pre > 1 {
                let form2 = *rng.pick(&FORMS);
                let want2 = true;
                if let Some((p2, _)) = gen_prereq_pair(rng, z, form2, want2, Some(&avoid)) {
                    let mut both = vec![prereqs[0].clone(), (p2.clone(), false)];
                    if rng.bool() {
                        both.swap(0, 1);
                    }
                    let all: Vec<Rr> = both.iter().flat_map(|(p, _)| p.rrs.clone()).collect();
                    // keep the second one only if it holds in both zones: then the toggled one decides
                    // the outcome whatever order the server evaluates in (RFC 2136 3.2.5 compares the
                    // value dependent RRsets after all the others)
                    let holds_in_both = prerequisites(z, &p2.rrs).is_empty() && prerequisites(&b, &p2.rrs).is_empty();
                    if prerequisites(z, &all) != prerequisites(&b, &all) && holds_in_both {
                        prereqs = both;
                    }
                }
            }
            zone_b = Some(b);
        }
    }
    let pre: Vec<Rr> = prereqs.iter().flat_map(|(p, _)| p.rrs.clone()).collect();
    Base { spec: Spec { kind: "update".into(), id, flags, opt, pre, upd, auth: vec![] }, prereqs, zone_b }
}
