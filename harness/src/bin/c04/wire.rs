//! Clause 3: wire round trip (emit → read), at any offset, compressed or not; plus reading of
//! hand-compressed wire (pointer concatenation) against the independent walker.

use hickory_proto::rr::Name;
use hickory_proto::serialize::binary::{BinDecodable, BinDecoder, BinEncodable, BinEncoder, NameEncoding};
use serde_json::{json, Value};

use vh::gen::{self, NameStyle};
use vh::mon::{self, hex, unhex};
use vh::prng::{fnv64, Rng};
use vh::refwire;

use crate::common::{build_checked, err_kind, labels_of, to_rname, Ck};
use crate::fam;
use crate::refname::{fold_labels, labels_valid, wire_len_of, RName};

pub const MODES: &[&str] = &["compressed", "uncompressed", "lowercase"];

fn mode_of(s: &str) -> NameEncoding {
    match s {
        "compressed" => NameEncoding::Compressed,
        "lowercase" => NameEncoding::UncompressedLowercase,
        _ => NameEncoding::Uncompressed,
    }
}

#[derive(Clone)]
pub struct Item {
    pub name: RName,
    pub mode: &'static str,
}

pub struct Group {
    pub prefix: Vec<u8>,
    /// prefix already in the buffer and the encoder opened with `BinEncoder::with_offset`
    /// instead of emitting the prefix through the encoder
    pub with_offset: bool,
    pub items: Vec<Item>,
}

impl Group {
    pub fn to_json(&self) -> Value {
        json!({"kind": "wire-group", "prefix": hex(&self.prefix), "with_offset": self.with_offset, "items": self.items.iter().map(|i| json!({"name": i.name.to_json(), "mode": i.mode})).collect::<Vec<_>>()})
    }
    pub fn from_json(c: &Value) -> Group {
        let items = c["items"]
            .as_array()
            .map(|a| {
                a.iter()
                    .filter_map(|j| {
                        let mode = MODES.iter().find(|m| Some(**m) == j["mode"].as_str()).copied().unwrap_or("uncompressed");
                        Some(Item { name: RName::from_json(&j["name"])?, mode })
                    })
                    .collect()
            })
            .unwrap_or_default();
        Group { prefix: unhex(c["prefix"].as_str().unwrap_or("")), with_offset: c["with_offset"].as_bool().unwrap_or(false), items }
    }
}

/// how two label sequences differ
fn diff_kind(want: &[Vec<u8>], got: &[Vec<u8>]) -> &'static str {
    if want == got {
        "same"
    } else if fold_labels(want) == fold_labels(got) {
        "letter-case"
    } else if want.concat() == got.concat() {
        "label-boundaries"
    } else if want.len() != got.len() {
        "label-count"
    } else {
        "octets"
    }
}

pub fn check_group(ck: &mut Ck, g: &Group) {
    // build hickory names first (construction judged separately)
    let mut names: Vec<(usize, Name)> = Vec::new();
    for (i, it) in g.items.iter().enumerate() {
        if !it.name.valid() {
            continue;
        }
        if let Some(n) = build_checked(ck, &it.name, "from_labels") {
            names.push((i, n));
        }
    }
    if names.is_empty() {
        return;
    }
    // emit everything into ONE encoder behind the prefix
    struct Emitted {
        item: usize,
        off: usize,
        end: usize,
    }
    let emitted = mon::catch(|| {
        let mut buf: Vec<u8> = Vec::new();
        let mut out: Vec<Emitted> = Vec::new();
        let mut err: Option<(usize, String)> = None;
        {
            if g.with_offset {
                buf.extend_from_slice(&g.prefix);
            }
            let mut enc = if g.with_offset { BinEncoder::with_offset(&mut buf, g.prefix.len() as u32) } else { BinEncoder::new(&mut buf) };
            if !g.prefix.is_empty() && !g.with_offset {
                if let Err(e) = enc.emit_slice(&g.prefix) {
                    return (Vec::new(), out, Some((usize::MAX, e.to_string())));
                }
            }
            for (i, n) in &names {
                let off = enc.len();
                if off + 300 > 65_000 {
                    break;
                }
                let r = {
                    let mut m = enc.with_name_encoding(mode_of(g.items[*i].mode));
                    n.emit(&mut m)
                };
                match r {
                    Ok(()) => out.push(Emitted { item: *i, off, end: enc.len() }),
                    Err(e) => {
                        err = Some((*i, err_kind(&e)));
                        break;
                    }
                }
            }
        }
        (buf, out, err)
    });
    let (bytes, emitted, err) = match emitted {
        Ok(x) => x,
        Err(p) => {
            ck.rep.eval();
            ck.fail("panic", &format!("emit|{}", p.site()), g.to_json(), json!("no panic"), json!({"panic": p.message, "at": p.location}));
            return;
        }
    };
    if let Some((i, e)) = err {
        ck.rep.eval();
        if i != usize::MAX {
            ck.fail("wire-rt", &format!("{}|emit-err|{e}", g.items[i].mode), g.to_json(), json!("legal name encodes"), json!({"item": i, "err": e}));
        }
    }
    ck.rep.count("wire_groups");
    if g.with_offset {
        ck.rep.count("wire_groups_with_offset");
    }
    for em in &emitted {
        let it = &g.items[em.item];
        let want: Vec<Vec<u8>> = if it.mode == "lowercase" { fold_labels(&it.name.labels) } else { it.name.labels.clone() };
        let case = || {
            let mut c = g.to_json();
            c["failing_item"] = json!(em.item);
            c["offset"] = json!(em.off);
            c
        };
        ck.rep.eval();
        ck.rep.count(&format!("wire_rt/{}", it.mode));
        // (a) independent walker over the produced bytes
        let mut used_pointer = false;
        match refwire::read_name(&bytes, em.off) {
            Ok((wn, next)) => {
                used_pointer = wn.pointers > 0;
                let d = diff_kind(&want, &wn.labels);
                if d != "same" {
                    ck.fail("wire-emit", &format!("{}|{d}", it.mode), case(), json!(vh::refwire::show(&want)), json!(vh::refwire::show(&wn.labels)));
                }
                if next != em.end {
                    ck.fail("wire-emit", &format!("{}|length", it.mode), case(), json!(em.end), json!(next));
                }
                if it.mode != "compressed" {
                    let mut plain = Vec::new();
                    refwire::put_name(&mut plain, &want);
                    if bytes[em.off..em.end] != plain[..] {
                        ck.fail("wire-emit", &format!("{}|not-plain", it.mode), case(), json!(hex(&plain)), json!(hex(&bytes[em.off..em.end])));
                    }
                } else if em.end - em.off > wire_len_of(&want) {
                    ck.fail("wire-emit", "compressed|longer-than-plain", case(), json!(wire_len_of(&want)), json!(em.end - em.off));
                }
            }
            Err(e) => ck.fail("wire-emit", &format!("{}|unreadable", it.mode), case(), json!("well-formed name (strictly backward pointers)"), json!(e)),
        }
        if it.mode == "compressed" {
            if used_pointer {
                ck.rep.count("wire_rt_pointer_used");
                if want != fold_labels(&want) {
                    ck.rep.count("wire_rt_pointer_used_mixed_case");
                }
            }
            if em.off >= 0x3FFF {
                ck.rep.count("wire_rt_beyond_pointer_range");
            }
        }
        if it.name.labels.len() >= 2 {
            let mut h = it.name.case_bytes();
            h.push(MODES.iter().position(|m| *m == it.mode).unwrap_or(9) as u8);
            h.push(used_pointer as u8);
            h.extend_from_slice(&(em.off as u32).to_le_bytes());
            ck.rep.nontrivial(fnv64(&h));
        }
        // (b) hickory's own decoder at the same offset
        let got = mon::catch(|| {
            let mut d = BinDecoder::new(&bytes).clone(em.off as u16);
            Name::read(&mut d).map(|n| (n, d.index()))
        });
        let tag = if used_pointer { "ptr" } else { "noptr" };
        match got {
            Ok(Ok((n, idx))) => {
                ck.limit("wire-read", &n, &case);
                let d = diff_kind(&want, &labels_of(&n));
                if d != "same" {
                    ck.fail("wire-rt", &format!("{}|{tag}|{d}", it.mode), case(), json!(vh::refwire::show(&want)), to_rname(&n).to_json());
                }
                // DONT-CARE: a relative name comes back fully qualified (the wire format has no
                // relative names); only FQDN inputs are required to keep their flag.
                if it.name.fqdn && !n.is_fqdn() {
                    ck.fail("wire-rt", &format!("{}|{tag}|fqdn", it.mode), case(), json!(true), json!(false));
                }
                if idx != em.end {
                    ck.fail("wire-rt", &format!("{}|{tag}|consumed", it.mode), case(), json!(em.end), json!(idx));
                }
            }
            Ok(Err(e)) => ck.fail("wire-rt", &format!("{}|{tag}|read-err|{}", it.mode, err_kind(&e)), case(), json!(vh::refwire::show(&want)), json!(e.to_string())),
            Err(p) => ck.fail("panic", &format!("read|{}", p.site()), case(), json!("no panic"), json!({"panic": p.message, "at": p.location})),
        }
    }
}

pub fn gen_group(rng: &mut Rng) -> Group {
    let prefix_len = match rng.below(40) {
        0 => rng.urange(0x3FFF - 200, 0x3FFF + 40), // names on both sides of the pointer-range end
        1 => rng.urange(1000, 9000),
        2..=9 => 0,
        10..=14 => 12,
        _ => rng.urange(1, 300),
    };
    let prefix = rng.bytes(prefix_len);
    let count = match rng.below(30) {
        0 => rng.urange(130, 170), // beyond the 120-name / 64-candidate compression limits
        _ => rng.urange(2, 12),
    };
    // a pool of bases whose suffixes get shared, in several letter cases
    let nbases = rng.urange(1, 3);
    let bases: Vec<RName> = (0..nbases)
        .map(|_| {
            let mut b = fam::base_name(rng);
            b.fqdn = true;
            b
        })
        .collect();
    let group_mode = *rng.pick(&["compressed", "compressed", "compressed", "uncompressed", "mixed"]);
    let mut items = Vec::new();
    let mut tries = 0;
    while items.len() < count && tries < count * 4 {
        tries += 1;
        let base = rng.pick(&bases).clone();
        let mut n = match rng.below(12) {
            0 => base.clone(),
            1..=3 => {
                // child of the base (shares the whole base as suffix)
                let mut m = base.clone();
                let extra = rng.urange(1, 2);
                for _ in 0..extra {
                    let style = if rng.bool() { NameStyle::Binary } else { NameStyle::Host };
                    m.labels.insert(0, gen::label(rng, style, 10));
                }
                m
            }
            4 | 5 => {
                // same suffix in another letter case
                let mut m = base.clone();
                for l in m.labels.iter_mut() {
                    for c in l.iter_mut() {
                        if c.is_ascii_alphabetic() && rng.chance(1, 3) {
                            *c ^= 0x20;
                        }
                    }
                }
                if rng.bool() {
                    m.labels.insert(0, gen::label(rng, NameStyle::Host, 8));
                }
                m
            }
            6 => {
                // ancestor of the base
                let mut m = base.clone();
                if !m.labels.is_empty() {
                    let d = rng.urange(1, m.labels.len());
                    m.labels.drain(..d);
                }
                m
            }
            7 | 8 => fam::derive(rng, &base).unwrap_or(base.clone()),
            9 => {
                // only the case of the rightmost label differs: pointer must not be taken for it
                let mut m = base.clone();
                if let Some(l) = m.labels.last_mut() {
                    for c in l.iter_mut() {
                        if c.is_ascii_alphabetic() {
                            *c ^= 0x20;
                        }
                    }
                }
                m
            }
            _ => fam::base_name(rng),
        };
        if rng.chance(9, 10) {
            n.fqdn = true;
        }
        if !n.valid() {
            continue;
        }
        let mode = match group_mode {
            "mixed" => *rng.pick(MODES),
            "uncompressed" => "uncompressed",
            _ => "compressed",
        };
        items.push(Item { name: n, mode });
    }
    Group { with_offset: !prefix.is_empty() && rng.chance(1, 4), prefix, items }
}

// ---------------------------------------------------------------------------------------------
// reading hand-compressed wire

/// Build a buffer of names where later names are "fresh labels + pointer to any earlier label
/// start" (the pointed-to tail need not be related) and return the offsets at which names start
/// together with the decompressed labels each must denote.
pub fn gen_pointer_wire(rng: &mut Rng) -> (Vec<u8>, Vec<usize>) {
    let plen = rng.urange(0, 40);
    let mut b = rng.bytes(plen);
    // (offset of a label start or of a root/pointer octet, decompressed tail from there)
    let mut targets: Vec<(usize, Vec<Vec<u8>>)> = Vec::new();
    let mut starts = Vec::new();
    let n = rng.urange(2, 10);
    let edge = rng.chance(1, 2);
    for k in 0..n {
        let start = b.len();
        let labels: Vec<Vec<u8>> = if k == 0 && edge {
            // a long first name so that concatenations land around 255
            {
                let t = rng.urange(150, 255);
                fam::name_with_wire_len(rng, t, 63, false)
            }
        } else if edge {
            let l = rng.urange(1, 4);
            (0..l).map(|_| vec![*rng.pick(b"aZ\x00\xff."); *rng.pick(&[1usize, 2, 5, 20, 40, 61, 62, 63])]).collect()
        } else {
            fam::base_name(rng).labels
        };
        let (head, tail): (Vec<Vec<u8>>, Option<(usize, Vec<Vec<u8>>)>) = if !targets.is_empty() && rng.chance(3, 4) {
            let t = rng.pick(&targets).clone();
            let keep = rng.usize_below(labels.len() + 1);
            (labels[..keep].to_vec(), Some(t))
        } else {
            (labels, None)
        };
        let mut full: Vec<Vec<u8>> = head.clone();
        if let Some((_, t)) = &tail {
            full.extend(t.iter().cloned());
        }
        // a head whose own (uncompressed) part is illegal makes no sense to write
        if head.iter().any(|l| l.is_empty() || l.len() > 63) {
            continue;
        }
        for (i, l) in head.iter().enumerate() {
            if b.len() < 0x3FFF {
                targets.push((b.len(), full[i..].to_vec()));
            }
            b.push(l.len() as u8);
            b.extend_from_slice(l);
        }
        match tail {
            Some((off, _)) => b.extend_from_slice(&(0xC000u16 | off as u16).to_be_bytes()),
            None => {
                targets.push((b.len(), vec![]));
                b.push(0);
            }
        }
        starts.push(start);
        // some junk between names (as RDATA would be)
        let junk = rng.urange(0, 6);
        b.extend(rng.bytes(junk));
    }
    (b, starts)
}

pub fn check_wire_read(ck: &mut Ck, bytes: &[u8], off: usize) {
    if off >= bytes.len() || off > u16::MAX as usize {
        return;
    }
    let case = || json!({"kind": "wire-read", "hex": hex(bytes), "off": off});
    ck.rep.eval();
    let reference = refwire::read_name(bytes, off);
    let got = mon::catch(|| {
        let mut d = BinDecoder::new(bytes).clone(off as u16);
        Name::read(&mut d).map(|n| (n, d.index()))
    });
    let ptr = matches!(&reference, Ok((w, _)) if w.pointers > 0);
    let tag = if ptr { "ptr" } else { "noptr" };
    match got {
        Err(p) => ck.fail("panic", &format!("read|{}", p.site()), case(), json!("no panic"), json!({"panic": p.message, "at": p.location})),
        Ok(Ok((n, idx))) => {
            ck.rep.count("op/wire_read:Ok");
            ck.limit("wire-read", &n, &case);
            if labels_of(&n).len() >= 2 {
                ck.rep.nontrivial(fnv64(&[bytes, &(off as u32).to_le_bytes()[..]].concat()));
            }
            match &reference {
                Ok((wn, next)) => {
                    if ptr {
                        ck.rep.count("wire_read_through_pointer");
                        ck.rep.max("max_wire_len_through_pointer", wn.wire_len() as f64);
                    }
                    let d = diff_kind(&wn.labels, &labels_of(&n));
                    if d != "same" {
                        ck.fail("wire-read", &format!("{tag}|{d}"), case(), json!(vh::refwire::show(&wn.labels)), to_rname(&n).to_json());
                    }
                    if idx != *next {
                        ck.fail("wire-read", &format!("{tag}|consumed"), case(), json!(next), json!(idx));
                    }
                    if !n.is_fqdn() {
                        ck.fail("wire-read", &format!("{tag}|fqdn"), case(), json!(true), json!(false));
                    }
                }
                // the walker rejects (too long / reserved label type / not strictly backwards):
                // an over-long result is already reported by the limit monitor; anything else
                // hickory accepts here is outside this property (C01 owns hostile wire).
                Err(_) => ck.rep.count("wire_read_ok_where_walker_rejects"),
            }
        }
        Ok(Err(e)) => {
            ck.rep.count("op/wire_read:Err");
            if let Ok((wn, _)) = &reference {
                // legal compressed name (every pointer targets an earlier name of this buffer)
                if labels_valid(&wn.labels) {
                    ck.fail("wire-read", &format!("{tag}|rejects-legal|{}", err_kind(&e)), case(), json!(vh::refwire::show(&wn.labels)), json!(e.to_string()));
                }
            } else {
                ck.rep.count("wire_read_both_reject");
            }
        }
    }
}
