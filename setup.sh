#!/bin/sh
# MANIFEST.setup_cmd: offline build of the whole harness against /repo (hooks on).
set -e
cd /verif/harness
[ -f Cargo.lock ] || cp /repo/Cargo.lock Cargo.lock
CARGO_NET_OFFLINE=true CARGO_TARGET_DIR=/verif/target cargo build --offline --bins 2>&1 | tail -5
echo "setup done"
