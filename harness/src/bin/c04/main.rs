//! C04 — domain names: case-insensitive identity, canonical order, length limits.
//!
//! Oracle clauses (rule ids):
//!  1. `eq`, `hash`            a == b iff folded labels equal and same fqdn flag; equal ⇒ same std hash
//!     `lower-name`, `rr-key`  same identity / order on LowerName and RrKey
//!  2. `cmp-eq-consistency`, `cmp-antisymmetry`, `cmp-transitivity`, `partial-cmp`  total-order laws;
//!     `cmp-canonical`         two FQDNs compare as RFC 4034 §6.1 says (reference in refname.rs,
//!                             plus the RFC's own example list pinned)
//!  3. `wire-rt`               emit → read gives back every octet incl. letter case, at any offset,
//!                             compressed or not; `wire-emit`: the produced bytes read by the
//!                             independent walker denote the same name; `wire-read`: hand-compressed
//!                             wire (pointer concatenation) reads as the walker reads it
//!  4. `text-rt`, `text-print`, `text-parse`   host-style names survive to_ascii → from_ascii
//!  5. `limit`                 no API hands back a name > 255 octets / label > 63; `panic`;
//!     `construct`, `op-result` documented result of constructors / combinators vs the model
//!
//! DONT-CAREs are listed where they apply (laws.rs: order direction involving relative names;
//! wire.rs: relative names come back fully qualified; text.rs: leading hyphen, \DDD, IDNA
//! constructors; ops.rs: flag of trim_to/base_name on relative input, into_wildcard of an empty
//! name, IDNA label flavours). `randomize_label_case` draws from `rand`, so its *outputs* are not
//! reproducible from the seed; the oracle for it is output-independent.

mod common;
mod fam;
mod laws;
mod ops;
mod refname;
mod text;
mod wire;

use serde_json::json;

use vh::mon::{self, unhex, Ctx, Reporter};

use common::{Ck, CTORS};
use refname::RName;

fn main() {
    let ctx = Ctx::from_args("C04");
    mon::install_panic_monitor();
    let mut rep = Reporter::new(&ctx);

    // ---- replay
    if let Some(w) = ctx.replay_case() {
        let c = &w["case"];
        let mut ck = Ck { rep: &mut rep };
        match c["kind"].as_str().unwrap_or("") {
            "family" => laws::check_family(&mut ck, &laws::family_from_case(c)),
            "construct" => {
                if let Some(r) = RName::from_json(&c["name"]) {
                    common::build_checked(&mut ck, &r, c["ctor"].as_str().unwrap_or("from_labels"));
                }
            }
            "wire-group" => wire::check_group(&mut ck, &wire::Group::from_json(c)),
            "wire-read" => wire::check_wire_read(&mut ck, &unhex(c["hex"].as_str().unwrap_or("")), c["off"].as_u64().unwrap_or(0) as usize),
            "text" => {
                if let Some(r) = RName::from_json(&c["name"]) {
                    text::check_text(&mut ck, &r);
                }
            }
            "op" => {
                if let Some(op) = ops::Op::from_json(c) {
                    ops::check_op(&mut ck, &op);
                }
            }
            k => eprintln!("unknown case kind {k:?}"),
        }
        rep.replay_finish();
    }

    // ---- must-observe (App. B row C04), thresholds well below what quick observes
    let th = ctx.is_thorough();
    rep.must("pairs", if th { 5_000_000 } else { 100_000 });
    rep.must("pairs_nontrivial", if th { 5_000_000 } else { 100_000 });
    rep.must("pairs_case_only", if th { 50_000 } else { 1_000 });
    rep.must("canonical_order_checks", 100_000);
    rep.must("triples", 1_000_000);
    rep.must("rfc_list_checks", 27);
    rep.must("wire_rt_pointer_used", if th { 50_000 } else { 1_000 });
    rep.must("wire_rt_pointer_used_mixed_case", 300);
    rep.must("wire_rt/uncompressed", 1_000);
    rep.must("wire_rt_beyond_pointer_range", 10);
    rep.must("wire_groups_with_offset", 100);
    rep.must("wire_read_through_pointer", 1_000);
    rep.must("text_rt_host_style", 10_000);
    rep.must("text_rt_with_escaped_dot", 1_000);
    rep.must("text_rt_with_wildcard", 1_000);
    rep.must("text_rt_with_upper_case", 1_000);
    rep.must("names_at_255", 100);
    for op in ops::FALLIBLE.iter().chain(["wire_read"].iter()) {
        rep.must(&format!("op/{op}:Ok"), 20);
        rep.must(&format!("op/{op}:Err"), 20);
    }
    for op in ops::INFALLIBLE {
        rep.must(&format!("op/{op}:Ok"), 20);
    }

    // ---- reference self-test (soundness of the oracle itself)
    {
        let mut r = ctx.rng("selftest");
        let mut samples: Vec<RName> = fam::pinned_families().into_iter().flatten().collect();
        for _ in 0..6 {
            samples.extend(fam::family(&mut r));
        }
        if let Err(e) = refname::self_test(&samples) {
            rep.inconclusive(&format!("reference model self-test failed: {e}"));
            eprintln!("reference model self-test failed: {e}");
            std::process::exit(rep.finish().min(0));
        }
    }

    let mut ck = Ck { rep: &mut rep };

    // ---- W0 pinned corpus (split over shards)
    if ctx.mine(0) {
        laws::check_rfc_list(&mut ck);
    }
    for (i, f) in fam::pinned_families().into_iter().enumerate() {
        for (k, ctor) in CTORS.iter().enumerate() {
            if ctx.mine((1 + i * CTORS.len() + k) as u64) {
                let fam: Vec<(RName, String)> = f.iter().map(|r| (r.clone(), ctor.to_string())).collect();
                laws::check_family(&mut ck, &fam);
                for r in &f {
                    text::check_text(&mut ck, r);
                }
                let g = wire::Group { prefix: vec![0; 12], with_offset: false, items: f.iter().map(|r| wire::Item { name: r.clone(), mode: "compressed" }).collect() };
                wire::check_group(&mut ck, &g);
            }
        }
    }

    // ---- W1 families: identity / hash / order laws
    {
        let mut rng = ctx.rng("families");
        let n = ctx.budget(160_000, 6_000_000);
        for i in 0..n {
            let f = fam::family(&mut rng);
            let fam: Vec<(RName, String)> = f
                .into_iter()
                .map(|r| {
                    let ctor = match rng.below(10) {
                        0 => "wire",
                        1 => "append",
                        2 => "prepend",
                        3 => "ascii",
                        _ => "from_labels",
                    };
                    (r, ctor.to_string())
                })
                .collect();
            if i < 2 {
                ck.rep.sample(|| json!({"workload": "family", "names": fam.iter().map(|(r, c)| json!({"name": r.show(), "fqdn": r.fqdn, "ctor": c})).collect::<Vec<_>>()}));
            }
            laws::check_family(&mut ck, &fam);
        }
    }

    // ---- W2 wire round trips inside one encoder, with shared suffixes in other letter cases
    {
        let mut rng = ctx.rng("wire");
        let n = ctx.budget(96_000, 4_000_000);
        for i in 0..n {
            let g = wire::gen_group(&mut rng);
            if i == 0 {
                ck.rep.sample(|| json!({"workload": "wire-group", "prefix_len": g.prefix.len(), "names": g.items.iter().map(|it| json!({"name": it.name.show(), "mode": it.mode})).collect::<Vec<_>>()}));
            }
            wire::check_group(&mut ck, &g);
        }
        let n = ctx.budget(96_000, 4_000_000);
        for _ in 0..n {
            let (bytes, starts) = wire::gen_pointer_wire(&mut rng);
            for off in starts {
                wire::check_wire_read(&mut ck, &bytes, off);
            }
        }
    }

    // ---- W3 text round trips
    {
        let mut rng = ctx.rng("text");
        let n = ctx.budget(600_000, 20_000_000);
        for i in 0..n {
            let r = if i % 10 == 9 {
                // names outside the host-style class: panics / limits only
                let mut b = fam::base_name(&mut rng);
                if rng.chance(1, 3) && !b.labels.is_empty() {
                    b.labels[0].insert(0, b'-');
                    b.labels[0].truncate(63);
                    b.labels.retain(|_| true);
                }
                b
            } else {
                text::gen_host_name(&mut rng)
            };
            if i == 0 {
                ck.rep.sample(|| json!({"workload": "text", "name": r.show(), "fqdn": r.fqdn}));
            }
            text::check_text(&mut ck, &r);
        }
    }

    // ---- W4 constructors / combinators at the limits
    {
        let mut rng = ctx.rng("ops");
        let n = ctx.budget(960_000, 30_000_000);
        for i in 0..n {
            let op = ops::gen_op(&mut rng);
            if i == 0 {
                ck.rep.sample(|| op.to_json());
            }
            ops::check_op(&mut ck, &op);
        }
    }

    std::process::exit(rep.finish().min(0));
}
