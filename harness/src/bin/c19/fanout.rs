//! Hostile CNAME fan-out: the alias work of one resolution does not depend on how many CNAME
//! records a hostile (but in-bailiwick) server packs into one response.
//!
//! `resolve_cnames()` chases every CNAME record of every section of a response, so the recursion
//! limit bounds only the *nesting* of alias chasing; the *width* - and with it the number of
//! upstream queries - is bounded by the per-request alias budget (`MAX_CNAME_LOOKUPS` = 64 alias
//! lookups, see depth.rs for the reading of the limits). The property statement demands "a number
//! of upstream queries bounded by the configured recursion limits" under "hostile servers
//! injecting extra records in any section": the bound must not be a function of the response size.
//!
//! Worlds (`world::Fan`, served by `net::fan_response`): root, 1-2 TLDs, a hostile home zone
//! (second or third level) and 0-6 further hostile zones reached across zone cuts, every
//! delegation with glue, one server per zone, all of them TCP capable (a response that does not
//! fit the advertised payload size is answered TC=1 and fetched again over TCP). A query for a fan
//! name `t[-<i>]*.<zone>` of fewer than `nest` (1..3, every fourth family 4..6: a small fan-out
//! repeated at the targets) indices is answered with `k` CNAME records
//! in ONE response - all in the answer section, all in authority, all in additional, or spread
//! over the three; owned by the name asked (several CNAMEs at one owner) or by other names of the
//! zone asked - whose targets `t..-<i>.<zones[i % n]>` fan out again the same way; names of
//! `nest` indices are leaves. A *family* is one such world run at 2-3 response sizes k from
//! {2, 3, 8, 12, 65, 80, 200} (always one >= 65) under the same limits, topology and queries.
//!
//! Clauses (one evaluation per top-level request, plus one per family):
//!  * `fanout-alias-budget`  more than MAX_CNAME_LOOKUPS = 64 distinct alias targets were asked
//!                           for upstream (with the type of the request) during one request
//!  * `fanout-budget`        more than 2 x (64 + 1) + (zone cuts of the world) + 8 upstream queries
//!                           for one request: every upstream query belongs to the request itself or
//!                           to one of <= 64 alias lookups (2 queries each where every delegation
//!                           has glue: `<name> NS` of the delegation walk and the query proper), or
//!                           is the NS query for one of the zone cuts (asked once per recursor, then
//!                           served from the name-server cache). Calibrated on the unchanged tree
//!                           (saturated members need exactly 2 x 65 + cuts reached); margin 8. The
//!                           bound is a function of the implementation constant and of the
//!                           delegation graph, NOT of k.
//!  * `fanout-growth`        among the *saturated* members of a family (more alias targets in the
//!                           tree than the budget: k + k^2 + .. + k^nest > 64) the upstream queries
//!                           of the first (cold) request for the entry name must not grow with k:
//!                           U(k2) <= U(k1) + (number of fan zones) + 2 for k1 < k2. Scale free: no
//!                           calibrated per-lookup cost enters.
//!    signature `fanout|own=<qname|other>|sec=<layout>|<flat|nested>`
//!
//! "Upstream queries" = datagrams + queries over TCP - datagrams answered TC=1 (a truncated
//! exchange and its repetition over TCP are one query carried twice; both numbers are recorded).
//! The generic clauses (termination budget, virtual time, panic, filters) run on the same worlds.
//!
//! Don't-cares: whether the request ends with an answer or an error (MaxRecordLimitExceeded,
//! recursion limit), which of the alias targets are looked up, the content of the answer.

use std::collections::BTreeSet;

use serde_json::{json, Value};

use vh::mon::{Ctx, Reporter};
use vh::prng::{fnv64, Rng};

use crate::depth::{tlds, B};
use crate::gen::LIMIT_VALUES;
use crate::world::{Fan, World};
use crate::{Outcome, WorldRun};

pub const K_VALUES: &[u32] = &[2, 3, 8, 12, 65, 80, 200];
pub const LAYOUTS: &[&str] = &["answer", "authority", "additional", "spread"];
pub const OWNERS: &[&str] = &["qname", "other"];
/// hickory's per-request alias budget (crates/resolver/src/recursor/handle.rs)
const MAX_CNAME_LOOKUPS: u64 = 64;
/// upstream queries per alias lookup where every delegation has glue (calibrated)
const PER_LOOKUP: u64 = 2;
const MARGIN: u64 = 8;

#[derive(Clone)]
pub struct Family {
    pub ks: Vec<u32>,
    /// carries the fan spec (its `k` is replaced by every member of `ks`), limits and queries
    pub world: World,
}

impl Family {
    fn json(&self) -> Value {
        json!({"fanout": {"ks": self.ks, "world": self.world.to_json()}})
    }
    fn from(v: &Value) -> Option<Family> {
        let f = &v["fanout"];
        let world = World::from_json(&f["world"])?;
        world.fan.as_ref()?;
        Some(Family { ks: f["ks"].as_array()?.iter().filter_map(|k| k.as_u64().map(|k| k as u32)).collect(), world })
    }
}

/// alias targets in the whole tree: k + k^2 + .. + k^nest
fn demand(k: u32, nest: u8) -> u64 {
    let mut total = 0u64;
    let mut level = 1u64;
    for _ in 0..nest {
        level = level.saturating_mul(k as u64);
        total = total.saturating_add(level);
    }
    total
}

pub fn budget_bound(w: &World) -> u64 {
    let cuts = w.zones.iter().filter(|z| z.apex != ".").count() as u64;
    PER_LOOKUP * (MAX_CNAME_LOOKUPS + 1) + cuts + MARGIN
}

pub fn gen_family(rng: &mut Rng, idx: u64) -> Family {
    let layout = LAYOUTS[(idx % 4) as usize];
    let owner = OWNERS[(idx / 4 % 2) as usize];
    let nest = match idx / 8 % 4 {
        3 => 4 + rng.below(3) as u8,
        n => 1 + n as u8,
    };
    let e = (idx / 32) as usize;
    let nk = K_VALUES.len();
    let mut ks = vec![K_VALUES[e % nk], K_VALUES[(e % nk + 1 + (e / nk) % (nk - 1)) % nk], K_VALUES[4 + rng.usize_below(3)]];
    ks.sort_unstable();
    ks.dedup();

    let mut b = B::new(rng);
    let t = tlds(rng, &mut b);
    let t0 = t[0].clone();
    let mut home = format!("evil.{t0}");
    b.solid(&t0, &home);
    if rng.chance(1, 3) {
        let deep = format!("deep.{home}");
        b.solid(&home, &deep);
        home = deep;
    }
    let mut zones = vec![home.clone()];
    let ncross = [0usize, 1, 3, 6][rng.usize_below(4)];
    for j in 0..ncross {
        let tl = &t[j % t.len()];
        let z = format!("cross{j}.{tl}");
        b.solid(tl, &z);
        zones.push(z);
    }
    for s in b.w.servers.iter_mut() {
        s.tcp = true;
    }
    let (rec, ns) = match rng.below(8) {
        0..=2 => (24, 24),
        3 => (255, 255),
        4 => (12, 12),
        5 => {
            if rng.bool() {
                (255, 24)
            } else {
                (24, 255)
            }
        }
        _ => (*rng.pick(LIMIT_VALUES), *rng.pick(LIMIT_VALUES)),
    };
    b.w.opts.recursion_limit = rec;
    b.w.opts.ns_recursion_limit = ns;
    b.w.tags = vec!["fanout".into()];
    let some_in_answer = layout == "answer" || layout == "spread";
    b.w.fan = Some(Fan { zones: zones.clone(), k: ks[0], nest, layout: layout.into(), owner: owner.into(), a_rec: !some_in_answer || rng.bool() });

    let qtype = *rng.pick(&["A", "A", "AAAA", "TXT"]);
    if rng.bool() {
        // the delegation walk to the home zone is in the caches already
        b.w.queries.push((format!("www.{home}"), "A".into()));
    }
    let entry = format!("t.{home}");
    b.w.queries.push((entry.clone(), qtype.into()));
    // the same request on warm caches, then a subtree entered directly (partly warm)
    if rng.bool() {
        b.w.queries.push((entry.clone(), qtype.into()));
    }
    if nest >= 2 && rng.bool() {
        let i = rng.below(2) as usize;
        b.w.queries.push((format!("t-{i}.{}", zones[i % zones.len()]), qtype.into()));
    }
    Family { ks, world: b.w }
}

fn outcome_tag(o: &Outcome) -> &'static str {
    match o {
        Outcome::Ok(_) => "ok",
        Outcome::Err(_) => "err",
        Outcome::VirtualTimeout => "virtual-timeout",
    }
}

struct Member {
    k: u32,
    /// upstream queries / messages / alias lookups of the first request for the entry name
    queries: u64,
    messages: u64,
    aliases: u64,
    outcome: &'static str,
}

pub fn do_family(fam: &Family, rep: &mut Reporter, fidx: u64) {
    let Some(spec) = fam.world.fan.clone() else { return };
    let shape = if spec.nest <= 1 { "flat" } else { "nested" };
    let sig = format!("fanout|own={}|sec={}|{shape}", spec.owner, spec.layout);
    let combo = format!("{}/{}", spec.owner, spec.layout);
    let entry = format!("t.{}", spec.zones.first().cloned().unwrap_or_default());
    let entry_top = fam.world.queries.iter().position(|(n, _)| *n == entry);
    let mut members: Vec<Member> = vec![];
    let mut complete = true;

    for k in &fam.ks {
        let mut w = fam.world.clone();
        if let Some(f) = w.fan.as_mut() {
            f.k = *k;
        }
        let one = |w: &World| Family { ks: vec![*k], world: w.clone() }.json();
        // generic clauses (panic, virtual time, datagram budget, filters) on the very same run
        let Some(run): Option<WorldRun> = crate::do_world(&w, rep, fidx) else {
            complete = false;
            continue;
        };
        let bound = budget_bound(&w);
        let st = run.net.st.lock().unwrap();
        rep.count(&format!("fanout_members/{combo}"));
        rep.count(&format!("fanout_k/{k}"));
        rep.count(&format!("fanout_nest/{}", if spec.nest > 3 { "deep".to_string() } else { spec.nest.to_string() }));
        rep.count(&format!("fanout_fan_zones/{}", spec.zones.len()));
        rep.count(&format!("fanout_limits/rec={}", w.opts.recursion_limit));
        rep.count(&format!("fanout_limits/ns={}", w.opts.ns_recursion_limit));
        for (top, tr) in run.tops.iter().enumerate() {
            let (qn, qt) = &w.queries[top];
            if spec.locate(qn).is_none() {
                continue;
            }
            rep.eval();
            // distinct alias targets asked for upstream with the type of the request
            let aliases: BTreeSet<&str> = st
                .log
                .iter()
                .filter(|c| c.top == top && !c.qname.is_empty() && c.qtype == *qt && c.qname != *qn)
                .filter(|c| spec.locate(&c.qname).map(|(_, p)| !p.is_empty()).unwrap_or(false))
                .map(|c| c.qname.as_str())
                .collect();
            let na = aliases.len() as u64;
            let queries = tr.sent - tr.truncated.min(tr.sent);
            let zones_reached: BTreeSet<&str> = aliases.iter().filter_map(|n| spec.locate(n).map(|(z, _)| z)).collect();
            rep.max(&format!("fanout_max_alias_lookups/{combo}"), na as f64);
            rep.max(&format!("fanout_max_upstream_queries/{combo}"), queries as f64);
            rep.max(&format!("fanout_max_upstream_messages/{combo}"), tr.sent as f64);
            rep.max(&format!("fanout_max_upstream_queries/k={k}"), queries as f64);
            rep.max(&format!("fanout_max_alias_lookups/k={k}"), na as f64);
            rep.max(&format!("fanout_max_upstream_queries/nest={}", spec.nest), queries as f64);
            if spec.nest > 3 && *k <= 3 && na >= MAX_CNAME_LOOKUPS {
                rep.count("fanout_alias_budget_reached/small-fan-out-repeated");
            }
            rep.max("fanout_max_fan_zones_reached", zones_reached.len() as f64);
            rep.add("fanout_truncated_then_tcp", tr.truncated);
            rep.count(&format!("fanout_outcome/{}", outcome_tag(&tr.outcome)));
            if na >= MAX_CNAME_LOOKUPS {
                rep.count(&format!("fanout_alias_budget_reached/{combo}"));
                rep.count(&format!("fanout_alias_budget_reached/{shape}"));
            }
            if zones_reached.len() >= 2 {
                rep.count("fanout_tops_crossing_zone_cuts");
            }
            let cold = Some(top) == entry_top;
            if cold {
                rep.nontrivial(fnv64(one(&w).to_string().as_bytes()));
                if matches!(tr.outcome, Outcome::Ok(_)) && na > 0 && na == demand(*k, spec.nest) {
                    // every alias of the tree was chased: the fan-out is real in this layout
                    rep.count(&format!("fanout_all_aliases_resolved/{combo}"));
                }
                members.push(Member { k: *k, queries, messages: tr.sent, aliases: na, outcome: outcome_tag(&tr.outcome) });
            }
            let observed = json!({"alias_lookups": na, "upstream_queries": queries, "upstream_messages": tr.sent, "truncated_datagrams": tr.truncated, "outcome": outcome_tag(&tr.outcome),
                "k": k, "nest": spec.nest, "at_query": top, "query": format!("{qn} {qt}"), "recursion_limit": w.opts.recursion_limit, "ns_recursion_limit": w.opts.ns_recursion_limit});
            if na > MAX_CNAME_LOOKUPS {
                rep.violation("fanout-alias-budget", &sig, one(&w), json!(format!("<= MAX_CNAME_LOOKUPS = {MAX_CNAME_LOOKUPS} alias targets looked up upstream for one request, whatever the number of CNAME records per response")), observed.clone());
            }
            if queries > bound {
                rep.violation(
                    "fanout-budget",
                    &sig,
                    one(&w),
                    json!(format!("<= {PER_LOOKUP} x ({MAX_CNAME_LOOKUPS} + 1) + zone cuts + {MARGIN} = {bound} upstream queries for one request, whatever the number of CNAME records per response")),
                    observed,
                );
            }
        }
    }

    // ---- growth with the response size (first, cold request for the entry name)
    rep.eval();
    rep.count("fanout_families");
    let slack = spec.zones.len() as u64 + 2;
    let sat: Vec<&Member> = members.iter().filter(|m| demand(m.k, spec.nest) > MAX_CNAME_LOOKUPS).collect();
    for p in sat.windows(2) {
        rep.count("fanout_growth_pairs");
        rep.count(&format!("fanout_growth_pairs/{shape}"));
        rep.max("fanout_max_growth_between_saturated_members", p[1].queries as f64 - p[0].queries as f64);
        if p[1].queries > p[0].queries + slack {
            let mut two = fam.clone();
            two.ks = vec![p[0].k, p[1].k];
            rep.violation(
                "fanout-growth",
                &sig,
                two.json(),
                json!(format!("upstream queries at k={} <= those at k={} + {slack}: both trees hold more alias targets than the alias budget, the work is bounded by the budget and not by the response size", p[1].k, p[0].k)),
                json!({"family": members.iter().map(|m| json!({"k": m.k, "upstream_queries": m.queries, "upstream_messages": m.messages, "alias_lookups": m.aliases, "outcome": m.outcome})).collect::<Vec<_>>(),
                    "nest": spec.nest, "recursion_limit": fam.world.opts.recursion_limit, "ns_recursion_limit": fam.world.opts.ns_recursion_limit}),
            );
            break;
        }
    }
    if complete {
        rep.count("fanout_families_complete");
    }
    if std::env::var_os("C19_FANOUT_TRACE").is_some() {
        eprintln!(
            "FANOUT {sig} nest={} zones={} limits=({},{}) a_rec={} {:?}",
            spec.nest,
            spec.zones.len(),
            fam.world.opts.recursion_limit,
            fam.world.opts.ns_recursion_limit,
            spec.a_rec,
            members.iter().map(|m| (m.k, m.queries, m.messages, m.aliases, m.outcome)).collect::<Vec<_>>()
        );
    }
}

pub fn run(ctx: &Ctx, rep: &mut Reporter) {
    let n = ctx.budget(480, 120_000);
    let mut rng = ctx.rng("fanout");
    for k in 0..n {
        // contiguous blocks per shard: together the shards walk layout x owner x nest x sizes
        let idx = ctx.shard * n + k;
        let mut r = rng.fork();
        let f = gen_family(&mut r, idx);
        if k < 1 {
            rep.sample(|| json!({"fanout_family_index": idx, "ks": f.ks, "fan": f.world.fan.as_ref().map(|x| x.to_json()), "queries": f.world.to_json()["queries"].clone(), "opts": f.world.to_json()["opts"].clone()}));
        }
        do_family(&f, rep, idx);
    }
}

pub fn replay(v: &Value, rep: &mut Reporter) {
    if let Some(f) = Family::from(v) {
        do_family(&f, rep, 0);
    }
}

pub fn musts(rep: &mut Reporter) {
    // thresholds >= 3x below what quick observes at seeds 1..8
    for o in OWNERS {
        for l in LAYOUTS {
            rep.must(&format!("fanout_members/{o}/{l}"), 200);
            rep.must(&format!("fanout_alias_budget_reached/{o}/{l}"), 100);
            rep.must(&format!("fanout_all_aliases_resolved/{o}/{l}"), 20);
        }
    }
    for k in K_VALUES {
        rep.must(&format!("fanout_k/{k}"), 150);
    }
    for n in ["1", "2", "3", "deep"] {
        rep.must(&format!("fanout_nest/{n}"), 400);
    }
    rep.must("fanout_alias_budget_reached/flat", 150);
    rep.must("fanout_alias_budget_reached/nested", 600);
    rep.must("fanout_alias_budget_reached/small-fan-out-repeated", 30);
    rep.must("fanout_growth_pairs/flat", 60);
    rep.must("fanout_growth_pairs/nested", 400);
    rep.must("fanout_truncated_then_tcp", 1500);
    rep.must("fanout_tops_crossing_zone_cuts", 1000);
    rep.must("fanout_families_complete", 600);
}
