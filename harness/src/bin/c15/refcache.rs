//! `refcache` — independent reference model of the C15 statement: one TTL'd register per query.
//!
//! Plain types only (u16 type codes, u32 TTLs, u64 nanosecond offsets, u64 second bounds). Nothing
//! from hickory is used here, so a deviation in hickory's clamping / ageing cannot cancel out.
//!
//! What the model asserts (clauses of the statement; rule ids in brackets):
//!  * [expired]   a `Some` result is only admissible while `now - t0 <= L` for the latest stored
//!                insert on that query; L = min over the entry's records whose type is the query
//!                type or CNAME (all three sections) of the *per-record-type clamped* TTL, then
//!                clamped to the positive bounds configured for the query type. Negative entries:
//!                L = negative TTL clamped to the negative bounds of the query type.
//!  * [ttl]       every TTL reported on a positive entry = clamp_{record type}(stored TTL) − whole
//!                seconds elapsed, floored at 0.
//!  * [ttl_increase] between two gets with no stored insert in between no reported TTL grows.
//!  * [not_latest] / [content] / [phantom] the returned entry is the latest stored insert.
//!  * [transient_visible] an error other than NoRecordsFound is never returned by `get`.
//!  * [stale_after_clear] nothing inserted before `clear` is returned after it.
//!
//! Don't-cares (the statement is silent or leaves latitude) — each one only ever *weakens* a check:
//!  D1 `None` while the model says live (eviction is allowed): flag `unexpected_none`, no violation.
//!  D2 positive entry without any record of the query type or CNAME: L undefined by the statement.
//!     hard bound used = positive max of the query type (any clamped value is ≤ max); the model
//!     *expects* it to live for positive min (what the code does) only for the unexpected_none count.
//!  D3 NoRecordsFound without `negative_ttl`: same treatment with the negative bounds.
//!  D4 TTLs reported inside a negative entry (negative_ttl, SOA, authorities, ns, glue): the
//!     statement's "per-type clamped stored TTL" does not say which bounds apply to them (hickory
//!     stores them unclamped). Accepted values: base − elapsed (floored at 0) for base ∈ {stored raw,
//!     raw clamped to the negative bounds of the query type, raw clamped to the positive bounds of
//!     the record's type}. Monotonicity [ttl_increase] is still checked exactly.
//!  D5 an override for a type replaces all four bounds (unset fields fall back to 0 / one day, not
//!     to the global bounds) — documented behaviour of `with_query_type_ttl_bounds`.
//!  D6 configurations with min > max, sub-second bounds, or min > u32::MAX s are outside the
//!     quantifier and are never generated.
//!  D7 elapsed time is `now − t0` saturating at 0 (only the threaded stress can pass an older `now`).
//!  D8 a key for which the last thing received was an upstream message whose treatment is a don't-care
//!     (`upstream.rs` U1–U3, or an ambiguity that could not be resolved) is *opaque*: nothing is judged
//!     for it until the next stored insert or clear (counted `m1/gets_dont_care`).

use serde_json::{json, Value};

pub const NS_PER_S: u64 = 1_000_000_000;
pub const DAY: u64 = 86_400;
pub const T_CNAME: u16 = 5;

#[derive(Clone, Debug, Default, PartialEq, Eq)]
pub struct Bounds {
    pub pos_min: Option<u64>,
    pub pos_max: Option<u64>,
    pub neg_min: Option<u64>,
    pub neg_max: Option<u64>,
}

impl Bounds {
    pub fn to_json(&self) -> Value {
        json!([self.pos_min, self.pos_max, self.neg_min, self.neg_max])
    }
    pub fn from_json(v: &Value) -> Bounds {
        let f = |i: usize| v.get(i).and_then(|x| x.as_u64());
        Bounds { pos_min: f(0), pos_max: f(1), neg_min: f(2), neg_max: f(3) }
    }
}

#[derive(Clone, Debug, Default, PartialEq, Eq)]
pub struct Config {
    pub default: Bounds,
    pub by_type: Vec<(u16, Bounds)>,
}

impl Config {
    fn sel(&self, t: u16) -> (&Bounds, bool) {
        match self.by_type.iter().find(|(x, _)| *x == t) {
            Some((_, b)) => (b, true),
            None => (&self.default, false),
        }
    }
    /// (min, max, from_override) in seconds for positive answers
    pub fn pos(&self, t: u16) -> (u64, u64, bool) {
        let (b, o) = self.sel(t);
        (b.pos_min.unwrap_or(0), b.pos_max.unwrap_or(DAY), o)
    }
    pub fn neg(&self, t: u16) -> (u64, u64, bool) {
        let (b, o) = self.sel(t);
        (b.neg_min.unwrap_or(0), b.neg_max.unwrap_or(DAY), o)
    }
    pub fn to_json(&self) -> Value {
        json!({
            "default": self.default.to_json(),
            "by_type": self.by_type.iter().map(|(t, b)| json!([t, b.to_json()])).collect::<Vec<_>>(),
        })
    }
    pub fn from_json(v: &Value) -> Config {
        let mut c = Config { default: Bounds::from_json(&v["default"]), by_type: vec![] };
        if let Some(a) = v["by_type"].as_array() {
            for e in a {
                c.by_type.push((e[0].as_u64().unwrap_or(0) as u16, Bounds::from_json(&e[1])));
            }
        }
        c
    }
}

pub fn clamp(x: u64, min: u64, max: u64) -> u64 {
    // min <= max is a generator invariant (D6)
    if x < min {
        min
    } else if x > max {
        max
    } else {
        x
    }
}

fn clamp_kind(x: u64, min: u64, max: u64) -> &'static str {
    if x < min {
        "up"
    } else if x > max {
        "down"
    } else {
        "none"
    }
}

/// One TTL-carrying position of an entry, in canonical order.
#[derive(Clone, Debug, PartialEq, Eq)]
pub struct Slot {
    /// "answer" | "authority" | "additional" | "negative_ttl" | "soa" | "neg_authority" | "ns" | "glue"
    pub slot: &'static str,
    pub rtype: u16,
    pub ttl: u32,
    pub tag: u32,
}

/// Flattened entry: what was inserted (raw TTLs) or what `get` returned (reported TTLs).
#[derive(Clone, Debug, PartialEq, Eq)]
pub struct View {
    pub negative: bool,
    /// message id (positive) or 0/1 = NoError/NXDomain (negative)
    pub head: u32,
    pub slots: Vec<Slot>,
}

impl View {
    /// identity ignoring TTLs
    pub fn same_entry(&self, o: &View) -> bool {
        self.negative == o.negative
            && self.head == o.head
            && self.slots.len() == o.slots.len()
            && self.slots.iter().zip(&o.slots).all(|(a, b)| a.slot == b.slot && a.rtype == b.rtype && a.tag == b.tag)
    }
    pub fn to_json(&self) -> Value {
        json!({
            "negative": self.negative,
            "head": self.head,
            "slots": self.slots.iter().map(|s| json!([s.slot, s.rtype, s.ttl, s.tag])).collect::<Vec<_>>(),
        })
    }
}

#[derive(Clone, Debug)]
pub enum Obs {
    None,
    Entry(View),
    OtherErr(String),
    Panic(String),
}

impl Obs {
    pub fn to_json(&self) -> Value {
        match self {
            Obs::None => json!("None"),
            Obs::Entry(v) => json!({"Some": v.to_json()}),
            Obs::OtherErr(s) => json!({"SomeErr": s}),
            Obs::Panic(s) => json!({"panic": s}),
        }
    }
}

#[derive(Clone, Copy, Debug, PartialEq, Eq)]
pub enum Class {
    Pos,
    PosNoMatch,
    Neg,
    NegNoTtl,
}

impl Class {
    pub fn name(self) -> &'static str {
        match self {
            Class::Pos => "pos",
            Class::PosNoMatch => "pos_nomatch",
            Class::Neg => "neg",
            Class::NegNoTtl => "neg_nottl",
        }
    }
}

#[derive(Clone, Debug)]
pub struct Stored {
    pub t0: u64,
    pub qtype: u16,
    pub raw: View,
    pub class: Class,
    /// must not be returned when now − t0 > hard_l seconds
    pub hard_l: u64,
    /// expected to be live while now − t0 <= soft_l seconds (equals hard_l except D2/D3)
    pub soft_l: u64,
    /// which bound decided L ("raw" | "up" | "down") and whether the query type's bounds are an override
    pub l_clamp: &'static str,
    pub l_override: bool,
    pub cleared: bool,
    pub last_ttls: Option<Vec<u32>>,
    pub gets_since_insert: u32,
    /// M1: response class and structural features of the upstream message this entry was derived
    /// from (empty for hand-built inserts); only used for counters
    pub labels: Vec<&'static str>,
}

impl Stored {
    pub fn hard_deadline(&self) -> u64 {
        self.t0.saturating_add(self.hard_l.saturating_mul(NS_PER_S))
    }
    pub fn soft_deadline(&self) -> u64 {
        self.t0.saturating_add(self.soft_l.saturating_mul(NS_PER_S))
    }
}

pub struct Finding {
    pub rule: &'static str,
    pub sig: String,
    pub expected: Value,
    pub observed: Value,
}

#[derive(Default)]
pub struct Judgement {
    pub findings: Vec<Finding>,
    /// a stored insert for this key happened earlier in the history (non-triviality rule)
    pub nontrivial: bool,
    pub hit: bool,
    pub neg_hit: bool,
    /// None, and the model says the entry is past its hard deadline
    pub expired_miss: bool,
    /// None while the model expects the entry to be live (D1)
    pub unexpected_none: bool,
    /// the live entry's soft deadline (ns), when unexpected_none
    pub soft_deadline: u64,
    /// hit exactly at t0 + L
    pub at_deadline: bool,
    pub elapsed_s: u64,
    pub classes: Vec<&'static str>,
    /// labels of the stored entry the get was judged against (M1)
    pub labels: Vec<&'static str>,
    /// the key is in the don't-care state (U1–U3 of upstream.rs): nothing was judged
    pub opaque: bool,
    /// D8: the cache served the entry of an earlier stored insert (judged on its own terms)
    pub older_entry_served: bool,
}

pub struct RefCache {
    pub cfg: Config,
    pub slots: Vec<Option<Stored>>,
    /// identities of superseded stored inserts per key (to tell "older insert" from "garbage")
    pub older: Vec<Vec<View>>,
    /// D8: per key, the superseded stored inserts with their insertion time, L and TTL history
    pub older_st: Vec<Vec<Stored>>,
    /// D8: a don't-care upstream message was received for the key since the last clear: the cache
    /// may hold an entry for it that the model does not know (and that later results need not
    /// have displaced)
    pub maybe_unknown: Vec<bool>,
    /// a transient error was the last insert on that key
    pub last_was_transient: Vec<bool>,
    /// the last thing received for that key was an upstream message whose treatment is a don't-care
    /// (upstream.rs U1–U3): whatever `get` returns is accepted until the next stored insert / clear
    pub opaque: Vec<bool>,
}

impl RefCache {
    pub fn new(cfg: Config, nkeys: usize) -> Self {
        Self { cfg, slots: vec![None; nkeys], older: vec![vec![]; nkeys], older_st: vec![vec![]; nkeys], maybe_unknown: vec![false; nkeys], last_was_transient: vec![false; nkeys], opaque: vec![false; nkeys] }
    }

    /// Build the stored register value for an insert (pure; also used by the threaded checker).
    pub fn make(cfg: &Config, qtype: u16, raw: View, now: u64) -> Stored {
        let (class, hard_l, soft_l, l_clamp, l_override);
        if !raw.negative {
            let (qmin, qmax, qo) = cfg.pos(qtype);
            let m = raw
                .slots
                .iter()
                .filter(|s| s.rtype == qtype || s.rtype == T_CNAME)
                .map(|s| {
                    let (mn, mx, _) = cfg.pos(s.rtype);
                    clamp(s.ttl as u64, mn, mx)
                })
                .min();
            l_override = qo;
            match m {
                Some(m) => {
                    class = Class::Pos;
                    hard_l = clamp(m, qmin, qmax);
                    soft_l = hard_l;
                    l_clamp = clamp_kind(m, qmin, qmax);
                }
                None => {
                    // D2
                    class = Class::PosNoMatch;
                    hard_l = qmax;
                    soft_l = qmin;
                    l_clamp = "nomatch";
                }
            }
        } else {
            let (nmin, nmax, no) = cfg.neg(qtype);
            l_override = no;
            let nt = raw.slots.iter().find(|s| s.slot == "negative_ttl").map(|s| s.ttl as u64);
            match nt {
                Some(t) => {
                    class = Class::Neg;
                    hard_l = clamp(t, nmin, nmax);
                    soft_l = hard_l;
                    l_clamp = clamp_kind(t, nmin, nmax);
                }
                None => {
                    // D3
                    class = Class::NegNoTtl;
                    hard_l = nmax;
                    soft_l = nmin;
                    l_clamp = "nottl";
                }
            }
        }
        Stored {
            t0: now,
            qtype,
            raw,
            class,
            hard_l,
            soft_l,
            l_clamp: match l_clamp {
                "none" => "raw",
                x => x,
            },
            l_override,
            cleared: false,
            last_ttls: None,
            gets_since_insert: 0,
            labels: vec![],
        }
    }

    pub fn insert_stored(&mut self, key: usize, qtype: u16, raw: View, now: u64) {
        let s = Self::make(&self.cfg, qtype, raw, now);
        if let Some(old) = self.slots[key].take() {
            let o = &mut self.older[key];
            if o.len() >= 64 {
                o.remove(0);
            }
            o.push(old.raw.clone());
            let os = &mut self.older_st[key];
            if os.len() >= 64 {
                os.remove(0);
            }
            os.push(old);
        }
        self.slots[key] = Some(s);
        self.last_was_transient[key] = false;
        self.opaque[key] = false;
    }

    /// M1: the latest stored insert on `key` was derived from an upstream message of this class.
    pub fn set_labels(&mut self, key: usize, labels: Vec<&'static str>) {
        if let Some(s) = self.slots[key].as_mut() {
            s.labels = labels;
        }
    }

    /// An upstream message whose treatment is a don't-care was received for `key`.
    pub fn set_opaque(&mut self, key: usize) {
        if let Some(old) = self.slots[key].take() {
            let o = &mut self.older[key];
            if o.len() >= 64 {
                o.remove(0);
            }
            o.push(old.raw.clone());
            let os = &mut self.older_st[key];
            if os.len() >= 64 {
                os.remove(0);
            }
            os.push(old);
        }
        self.opaque[key] = true;
        self.maybe_unknown[key] = true;
        self.last_was_transient[key] = false;
    }

    pub fn insert_transient(&mut self, key: usize) {
        self.last_was_transient[key] = true;
    }

    pub fn clear(&mut self) {
        for s in self.slots.iter_mut().flatten() {
            s.cleared = true;
        }
        for o in self.opaque.iter_mut() {
            *o = false;
        }
        for o in self.older_st.iter_mut().flatten() {
            o.cleared = true;
        }
        for m in self.maybe_unknown.iter_mut() {
            *m = false;
        }
    }

    pub fn judge(&mut self, key: usize, now: u64, obs: &Obs) -> Judgement {
        let mut j = Judgement::default();
        let cfg = self.cfg.clone();
        let transient_last = self.last_was_transient[key];
        if self.opaque[key] {
            j.opaque = true;
            if let Obs::Panic(p) = obs {
                j.findings.push(Finding { rule: "panic", sig: p.clone(), expected: json!("no panic"), observed: obs.to_json() });
            }
            return j;
        }
        // D8: the cache returns an entry of an earlier stored insert instead of the latest one. The
        // statement bounds how long an entry may be served after ITS insertion and how its TTLs
        // move; it does not say that a later result must displace it (a cache may decline to store
        // a result, e.g. a zero-TTL one: RFC 1035 3.2.1). The earlier entry becomes the one this
        // key is judged against - on its own insertion time, L, TTL history and clear mark.
        if let (Obs::Entry(v), Some(cur)) = (obs, self.slots[key].as_ref()) {
            if !cur.raw.same_entry(v) {
                // an entry without any tagged record (e.g. an empty negative answer) has no
                // identity: it cannot be told from what a don't-care upstream message left behind
                if self.maybe_unknown[key] && v.slots.iter().all(|s| s.tag == 0) {
                    j.opaque = true;
                    return j;
                }
                if let Some(ix) = self.older_st[key].iter().rposition(|o| o.raw.same_entry(v)) {
                    let o = self.older_st[key].remove(ix);
                    let cur = self.slots[key].replace(o).expect("checked");
                    self.older_st[key].push(cur);
                    j.older_entry_served = true;
                } else if self.maybe_unknown[key] {
                    j.opaque = true;
                    return j;
                }
            }
        }
        let Some(st) = self.slots[key].as_mut() else {
            // nothing was ever stored for this key
            match obs {
                Obs::None => {}
                Obs::Entry(v) => j.findings.push(Finding {
                    rule: "phantom",
                    sig: format!("never_stored|{}", if v.negative { "neg" } else { "pos" }),
                    expected: json!("None (no stored insert for this query)"),
                    observed: obs.to_json(),
                }),
                Obs::OtherErr(e) => j.findings.push(Finding {
                    rule: "transient_visible",
                    sig: e.clone(),
                    expected: json!("None (only transient errors were inserted for this query)"),
                    observed: obs.to_json(),
                }),
                Obs::Panic(p) => j.findings.push(Finding {
                    rule: "panic",
                    sig: p.clone(),
                    expected: json!("no panic"),
                    observed: obs.to_json(),
                }),
            }
            return j;
        };
        j.nontrivial = true;
        j.labels = st.labels.clone();
        st.gets_since_insert += 1;
        let elapsed_ns = now.saturating_sub(st.t0); // D7
        let elapsed_s = elapsed_ns / NS_PER_S;
        j.elapsed_s = elapsed_s;
        let e32 = u32::try_from(elapsed_s).unwrap_or(u32::MAX);
        let ctx = |st: &Stored| {
            json!({
                "t0_ns": st.t0, "now_ns": now, "elapsed_ns": elapsed_ns, "class": st.class.name(),
                "L_hard_s": st.hard_l, "L_expected_s": st.soft_l, "qtype": st.qtype, "stored": st.raw.to_json(),
                "cleared": st.cleared,
            })
        };
        match obs {
            Obs::None => {
                if st.cleared {
                    // fine
                } else if now > st.hard_deadline() {
                    j.expired_miss = true;
                } else if now <= st.soft_deadline() {
                    j.unexpected_none = true; // D1
                    j.soft_deadline = st.soft_deadline();
                }
            }
            Obs::Panic(p) => j.findings.push(Finding {
                rule: "panic",
                sig: p.clone(),
                expected: json!("no panic"),
                observed: obs.to_json(),
            }),
            Obs::OtherErr(e) => j.findings.push(Finding {
                rule: "transient_visible",
                sig: e.clone(),
                expected: ctx(st),
                observed: obs.to_json(),
            }),
            Obs::Entry(v) => {
                j.hit = true;
                j.neg_hit = v.negative;
                if !st.raw.same_entry(v) {
                    let older = self.older[key].iter().any(|o| o.same_entry(v));
                    j.findings.push(Finding {
                        rule: if older { "not_latest" } else { "content" },
                        sig: format!(
                            "{}|stored={}|got={}{}",
                            if older { "older_insert" } else { "unknown_entry" },
                            st.class.name(),
                            if v.negative { "neg" } else { "pos" },
                            if transient_last { "|after_transient" } else { "" }
                        ),
                        expected: ctx(st),
                        observed: obs.to_json(),
                    });
                    return j;
                }
                if st.cleared {
                    j.findings.push(Finding {
                        rule: "stale_after_clear",
                        sig: st.class.name().to_string(),
                        expected: json!({"none_after_clear": ctx(st)}),
                        observed: obs.to_json(),
                    });
                    return j;
                }
                // ---- clause 1: lifetime
                if now > st.hard_deadline() {
                    j.findings.push(Finding {
                        rule: "expired",
                        sig: format!(
                            "{}|L={}|{}",
                            st.class.name(),
                            st.l_clamp,
                            if st.l_override { "override" } else { "default" }
                        ),
                        expected: json!({"none_because_elapsed_gt_L": ctx(st)}),
                        observed: obs.to_json(),
                    });
                }
                if now == st.hard_deadline() {
                    j.at_deadline = true;
                }
                j.classes.push(match st.l_clamp {
                    "raw" => "L/raw",
                    "up" => "L/clamped_up",
                    "down" => "L/clamped_down",
                    "nomatch" => "L/nomatch",
                    _ => "L/nottl",
                });
                // ---- clause 2: reported TTLs
                let mut reported = Vec::with_capacity(v.slots.len());
                for (raw, got) in st.raw.slots.iter().zip(&v.slots) {
                    reported.push(got.ttl);
                    if !st.raw.negative {
                        let (mn, mx, ov) = cfg.pos(raw.rtype);
                        let c = clamp(raw.ttl as u64, mn, mx);
                        let want = (c as u32).saturating_sub(e32);
                        let ck = clamp_kind(raw.ttl as u64, mn, mx);
                        match ck {
                            "up" => j.classes.push("cfg/min_gt_ttl"),
                            "down" => j.classes.push("cfg/max_lt_ttl"),
                            _ => {}
                        }
                        if mn == mx {
                            j.classes.push("cfg/min_eq_max");
                        }
                        if mx == 0 {
                            j.classes.push("cfg/zero");
                        }
                        if ov {
                            j.classes.push(if raw.rtype == st.qtype { "cfg/override_qtype" } else { "cfg/override_other" });
                        }
                        if got.ttl != want {
                            let rel = if raw.rtype == st.qtype {
                                "qtype"
                            } else if raw.rtype == T_CNAME {
                                "cname"
                            } else {
                                "other"
                            };
                            // One structural situation gets its own collapsed signature: the
                            // configured maximum does not fit a u32 number of seconds, the stored
                            // TTL is above one day and the reported value is too low.
                            let sig = if mx > u32::MAX as u64 && raw.ttl as u64 > DAY && ck == "none" && got.ttl < want {
                                "max_bound_above_u32_secs|raw_ttl_above_one_day|low".to_string()
                            } else {
                                format!(
                                    "{}|{}|clamp={}|{}|{}",
                                    raw.slot,
                                    rel,
                                    ck,
                                    if ov { "override" } else { "default" },
                                    if got.ttl > want { "high" } else { "low" }
                                )
                            };
                            j.findings.push(Finding {
                                rule: "ttl",
                                sig,
                                expected: json!({"ttl": want, "clamped_stored": c, "elapsed_s": elapsed_s, "bounds": [mn, mx], "slot": [raw.slot, raw.rtype, raw.ttl, raw.tag], "entry": ctx(st)}),
                                observed: json!({"ttl": got.ttl, "result": obs.to_json()}),
                            });
                            break;
                        }
                    } else {
                        // D4
                        let (nmn, nmx, nov) = cfg.neg(st.qtype);
                        let mut ok = vec![raw.ttl.saturating_sub(e32)];
                        ok.push((clamp(raw.ttl as u64, nmn, nmx) as u32).saturating_sub(e32));
                        if raw.slot != "negative_ttl" {
                            let (mn, mx, _) = cfg.pos(raw.rtype);
                            ok.push((clamp(raw.ttl as u64, mn, mx) as u32).saturating_sub(e32));
                        } else {
                            match clamp_kind(raw.ttl as u64, nmn, nmx) {
                                "up" => j.classes.push("cfg/neg_min_gt_ttl"),
                                "down" => j.classes.push("cfg/neg_max_lt_ttl"),
                                _ => j.classes.push("cfg/neg_unclamped"),
                            }
                            if nmn == nmx {
                                j.classes.push("cfg/neg_min_eq_max");
                            }
                            if nmx == 0 {
                                j.classes.push("cfg/neg_zero");
                            }
                            if nov {
                                j.classes.push("cfg/neg_override");
                            }
                        }
                        if !ok.contains(&got.ttl) {
                            j.findings.push(Finding {
                                rule: "ttl",
                                sig: format!("{}|negative_entry|{}", raw.slot, if got.ttl > ok[0] { "high" } else { "low" }),
                                expected: json!({"ttl_one_of": ok, "elapsed_s": elapsed_s, "slot": [raw.slot, raw.rtype, raw.ttl, raw.tag], "entry": ctx(st)}),
                                observed: json!({"ttl": got.ttl, "result": obs.to_json()}),
                            });
                            break;
                        }
                    }
                }
                if st.class == Class::NegNoTtl {
                    j.classes.push("cfg/neg_nottl");
                }
                // ---- clause 3: no TTL grows between refreshes
                if let Some(prev) = &st.last_ttls {
                    if let Some(i) = (0..prev.len().min(reported.len())).find(|&i| reported[i] > prev[i]) {
                        j.findings.push(Finding {
                            rule: "ttl_increase",
                            sig: format!("{}|{}", st.raw.slots[i].slot, st.class.name()),
                            expected: json!({"ttl_at_most": prev[i], "previous_get": prev, "entry": ctx(st)}),
                            observed: json!({"ttl": reported[i], "result": obs.to_json()}),
                        });
                    }
                }
                st.last_ttls = Some(reported);
            }
        }
        j
    }
}
