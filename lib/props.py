"""Per-property driver configuration, loaded from lib/props/<ID>.json.

keys: bin, level (exploration|fault_enumeration), rule, assumptions[], technique?, level_text?,
      timeout{quick,thorough}?, max_shards?, thorough_flavours[]? (shipped|asan), flavour_scale?
"""
import glob, json, os

_D = os.path.join(os.path.dirname(os.path.abspath(__file__)), "props")

COMMON_ASSUME = [
    "harness builds /repo's working tree with --cfg hickory_dns_verif, opt-level 2, debug-assertions and overflow-checks on",
    "a verdict covers only the executions observed in this run (seeded generation; VERIF_SEED selects the stream)",
]

PROPS = {}
for _p in sorted(glob.glob(os.path.join(_D, "C*.json"))):
    with open(_p) as _f:
        _s = json.load(_f)
    _s["assumptions"] = COMMON_ASSUME + [a for a in _s.get("assumptions", []) if a not in COMMON_ASSUME]
    PROPS[os.path.basename(_p)[:-5]] = _s

LEVEL_TEXT = {
    "exploration": "held on the executions observed: seeded, structure-aware generation of inputs/histories driven through the real code with an independent oracle judging every execution; no claim beyond what was run",
    "fault_enumeration": "held on the executions observed: faults (tampering, crashes, socket errors, schedules) are enumerated over every position of small scenarios and sampled beyond, each run judged by an independent oracle; no claim beyond what was run",
}

# properties this family genuinely cannot decide (none so far); everything else missing from PROPS is "not built yet"
NOT_APPLICABLE = {}
